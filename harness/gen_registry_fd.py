#!/usr/bin/env python3
"""Generates registry_fd.toml (FrameDecoder skeleton harnesses) from the tables below."""
import os
HERE = os.path.dirname(os.path.realpath(__file__))
ENC_FD = ["FrameDecoder::{new,reset,decode_blocks,read,collect,collect_to_writer,can_collect,content_size,is_finished,bytes_read_from_source,get_checksum_from_data,blocks_decoded}",
          "FrameDecoderState::{new,reset,check_window_size}", "frame::read_frame_header", "FrameHeader::window_size",
          "BlockDecoder::{read_block_header,decode_block_content}", "DecoderScratch::{new,reset}",
          "DecodeBuffer::{reset,extend_and_fill,extend_from_reader,read,read_all,drain,drain_to,drain_to_window_size,drain_to_writer,can_drain_to_window_size}",
          "RingBuffer::* (real allocation, growth and wrap-around with concrete sizes)"]
ASSUME = ["built with std, without hash (checksum not computed; C08 covers hashing)",
          "source is harness type ArrSrc (array + index copy), a legal `impl Read`",
          "truncation instances: once ArrSrc has reported UnexpectedEof, a further read on it within the same harness ends the path (the decoder returns on the first read error; CBMC cannot fold the niche-encoded Err discriminant and would otherwise walk the infeasible success continuation)"]
out = []
ROT = {}
def add(name, props, tier, bound, est=110, unwind=26, extra_enc=None, mem=6, features="std", stubs=None):
    # tier "rotN": part of the quick tier only when VERIF_SEED % N == seed_group (assigned round-robin per N)
    sg = 0
    if tier.startswith("rot"):
        n = int(tier[3:])
        sg = ROT.get(tier, 0) % n
        ROT[tier] = ROT.get(tier, 0) + 1
    out.append('''[[harness]]
name = "%s"
file = "decoding/frame_decoder.rs"
props = %s
tier = "%s"
seed_group = %d
playback = "pattern"
features = "%s"
unwind = %d
est_s = %d
timeout_s = %d
mem_gb = %d
stubs = %s
encodes = %s
bound = "%s"
assumes = %s
''' % (name, str(props).replace("'", '"'), tier, sg, features, unwind, est, 800, mem, str(stubs or []).replace("'", '"'),
       str(ENC_FD + (extra_enc or [])).replace("'", '"'), bound, str(ASSUME).replace("'", '"')))

complete = [
 ("fd_complete_raw0", "one empty raw last block (single segment, content size 0)", "rot3"),
 ("fd_complete_raw1", "raw(1)", "thorough"),
 ("fd_complete_raw4_ck", "raw(4) + checksum trailer", "rot3"),
 ("fd_complete_rle1", "RLE(1)", "thorough"),
 ("fd_complete_rle3_ck", "RLE(3) + checksum trailer", "rot3"),
 ("fd_complete_rle3_raw2", "RLE(3)+raw(2)", "rot3"),
 ("fd_complete_rle3_raw2_ck_frag1", "RLE(3)+raw(2)+checksum, source delivers 1 byte per read", "quick"),
 ("fd_complete_raw2_raw0", "raw(2)+empty last raw block", "rot3"),
 ("fd_complete_raw4_raw3_raw0_ck_frag2", "raw(4)+raw(3)+empty last block+checksum, source delivers 2 bytes per read", "rot3"),
 ("fd_complete_wd_rle3_raw2", "window descriptor 0 (1 KiB), RLE(3)+raw(2), no content size", "rot3"),
 ("fd_complete_lying_ck", "single-segment size 2 but 8 bytes of content: raw(3)+RLE(3)+raw(2)+checksum (ring grows)", "quick"),
]
for n, d, t in complete:
    add(n, ["C01", "C10"] if n in ("fd_complete_rle3_raw2_ck_frag1", "fd_complete_raw2_raw0", "fd_complete_raw4_raw3_raw0_ck_frag2") else ["C01"], t, "skeleton: %s; every payload/trailer byte and two bytes following the frame symbolic; strategy All, one read" % d)

cuts_quick = ["05_all", "09_obo", "12_obo", "15_all", "19_obo"]
cuts_rot = ["06_all", "08_all", "10_obo", "10_all", "13_all", "14_obo", "15_obo", "17_obo", "18_all"]
cuts_thorough = ["00_all", "03_all", "04_all", "07_obo", "11_all", "16_all", "16_obo", "18_obo"]
for c in cuts_quick + cuts_rot + cuts_thorough:
    cut, sched = c.split("_")
    add("fd_cut_rle3raw2ck_" + c, ["C10", "C03"] if c in ("09_obo", "12_obo") else ["C10"], "quick" if c in cuts_quick else ("rot4" if c in cuts_rot else "thorough"),
        "skeleton RLE(3)+raw(2)+checksum (19 bytes) cut after %d bytes, schedule %s; every payload byte symbolic" % (int(cut), "one block per call, read after each" if sched == "obo" else "All"))
for c, t in (("11_all", "rot4"), ("13_obo", "rot4"), ("14_obo", "thorough")):
    cut, sched = c.split("_")
    add("fd_cut_raw2raw0_" + c, ["C10"], t,
        "skeleton raw(2)+empty last block (14 bytes) cut after %d bytes, schedule %s" % (int(cut), "one block per call" if sched == "obo" else "All"))

progs = [
 ("fd_prog_a_blocks1_read_each", "A", "inf", "Blocks(1) Read(8) x3", "quick"),
 ("fd_prog_a_blocks1_collect_each", "A", "inf", "Blocks(1) collect x3", "rot3"),
 ("fd_prog_a_blocks2_read1_frag3", "A", "3", "Blocks(2) Read(1) Read(1) Blocks(1) Read(2)", "rot3"),
 ("fd_prog_a_bytes1_sink_partial", "A", "inf", "Bytes(1) Bytes(1) Sink(takes 1, Ok(0), would take 4 more) Sink(8) Bytes(1)", "rot3"),
 ("fd_prog_a_bytes4_sink_wouldblock_retry", "A", "inf", "Bytes(4) Sink(2 then WouldBlock) Sink(WouldBlock at once) Sink(8) All Sink(3 then WouldBlock)", "quick"),
 ("fd_prog_a_all_sink_split", "A", "1", "Blocks(2) Read(3) All Sink(takes 1, Ok(0), would take 6 more) Sink(1, WouldBlock, would take 2 more) Read(1) - drained data wraps in the ring", "quick"),
 ("fd_prog_a_bytes6_collect_read", "A", "2", "Bytes(6) collect Read(8) Blocks(1) collect", "rot3"),
 ("fd_prog_a_blocks1_sink0", "A", "inf", "Blocks(1) Sink(0) Blocks(1) Sink(8) Sink(8)", "thorough"),
 ("fd_prog_b_blocks1_read_small", "B", "inf", "Blocks(1) Read(3) Blocks(1) Read(3) Blocks(1) Read(1)", "rot3"),
 ("fd_prog_b_bytes5_collect", "B", "4", "Bytes(5) collect Bytes(5) collect", "rot3"),
 ("fd_prog_b_all_sink_then_read", "B", "inf", "All Sink(3 then WouldBlock) Read(2) Sink(8)", "rot3"),
 ("fd_prog_b_blocks2_then_all", "B", "5", "Blocks(2) collect All", "thorough"),
 ("fd_prog_c_blocks1_read_each", "C", "inf", "Blocks(1) Read(8) Blocks(1) Read(2)", "quick"),
 ("fd_prog_a2_bytes3_read2", "A'", "inf", "Bytes(3) Read(2) x3", "thorough"),
 ("fd_prog_a2_blocks3_sink_each", "A'", "inf", "Blocks(3) Sink(1) Sink(1,WouldBlock) Sink(1) Sink(8)", "thorough"),
 ("fd_prog_a2_collect_before_decode", "A'", "1", "collect Read(4) Sink(4) Blocks(1) Blocks(1) collect", "thorough"),
]
SK = {"A": "lying single-segment size 2, raw(3)+RLE(3)+raw(2)+checksum (window smaller than content: retention, ring growth, wrap)",
      "A'": "as A without checksum", "B": "single segment 7, raw(4)+raw(3)+empty last+checksum", "C": "window descriptor 0, RLE(3)+raw(2)"}
for n, sk, chunk, prog, t in progs:
    add(n, ["C06"], t, "skeleton %s: %s; source chunk %s; driver program [%s] then finish and drain; every payload byte symbolic" % (sk, SK[sk], chunk, prog), est=200)

reuse = [
 ("fd_reuse_complete_drained", "A = RLE(3)+raw(2)+ck completed and drained; B = raw(4)+ck", "rot2"),
 ("fd_reuse_complete_undrained", "A completed, output left in the decoder; B = raw(1)", "rot2"),
 ("fd_reuse_abandoned", "A (lying window, 3 blocks) abandoned after its first block; B = RLE(3)+ck", "quick"),
 ("fd_reuse_truncated_block", "A truncated inside its second block (error ignored); B = RLE(3)+raw(2)", "quick"),
 ("fd_reuse_truncated_checksum", "A truncated inside its checksum; B = raw(2)+empty last", "rot2"),
 ("fd_reuse_truncated_header", "A truncated inside its header (reset fails); B = raw(4)+ck", "quick"),
 ("fd_reuse_larger_window", "A = raw(1) (window 1); B = window descriptor 1 KiB", "rot2"),
 ("fd_reuse_smaller_window", "A = window 1 KiB left undrained; B = lying window 2 (3 blocks)", "rot2"),
]
for n, d, t in reuse:
    add(n, ["C07", "C03"] if n in ("fd_reuse_truncated_header",) else ["C07"], t, "history: %s; every payload byte of both frames symbolic; B's bytes, consumed count, finished flag, checksum accessors checked against B's own values" % d, est=200)

open(os.path.join(HERE, "registry_fd.toml"), "w").write("# generated by gen_registry_fd.py - do not edit\n\n" + "\n".join(out))
print(len(out), "harnesses")
