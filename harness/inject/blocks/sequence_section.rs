use super::*;
use crate::verif_nd as nd;
use crate::verif_nd::{harness, nd_cover};

// C14/C01/C03: every prefix of up to 4 bytes: sequence count per RFC 8878 3.1.1.3.2.1 (1, 2 or 3 byte form),
// modes byte position, bytes consumed; too-short inputs are errors, never a panic.
harness! { fn sequences_header_all_patterns() {
    let b: [u8; 4] = nd::any();
    let len: usize = nd::any();
    nd::assume(len <= 4);
    let mut h = SequencesHeader::new();
    let r = h.parse_from_header(&b[..len]);
    if len == 0 { match r { Ok(_) => assert!(false), Err(e) => core::mem::forget(e) } return; }
    let b0 = b[0] as u32;
    let (count, cbytes): (u32, usize) = if b0 == 0 { (0, 1) }
        else if b0 < 128 { (b0, 1) }
        else if b0 < 255 { (((b0 - 128) << 8) + b[1] as u32, 2) }
        else { (b[1] as u32 + ((b[2] as u32) << 8) + 0x7F00, 3) };
    // a count of zero ends the section (also in the two byte form, as the reference decoder does): no modes byte
    let need = if b0 == 0 { 1 } else if b0 >= 128 && b0 < 255 && count == 0 { 2 } else { cbytes + 1 };
    if len < need {
        match r { Ok(_) => assert!(false, "short sequences header accepted"), Err(e) => core::mem::forget(e) }
        return;
    }
    let used = match r { Ok(u) => u, Err(e) => { core::mem::forget(e); panic!("well-formed sequences header refused"); } };
    assert!(used as usize == need);
    assert!(h.num_sequences == count);
    if count != 0 {
        match h.modes { Some(m) => assert!(m.0 == b[cbytes]), None => assert!(false, "modes byte missing") }
    }
    nd_cover!(b0 == 255 && len == 4, "three byte form");
    nd_cover!(b0 == 200 && len == 3, "two byte form");
    nd_cover!(b0 == 128 && count == 0, "two byte form with zero count");
} }
