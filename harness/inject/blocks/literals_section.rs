use super::*;
use crate::verif_nd as nd;
use crate::verif_nd::{harness, nd_cover};

// C14/C01/C03: every byte pattern of up to 5 bytes is parsed to the meaning RFC 8878 3.1.1.3.1.1 gives it
// (block type, size format, regenerated size, compressed size, stream count), short inputs are errors.
harness! { fn literals_header_all_patterns() {
    let b: [u8; 5] = nd::any();
    let len: usize = nd::any();
    nd::assume(len <= 5);
    let mut s = LiteralsSection::new();
    let r = s.parse_from_header(&b[..len]);
    if len == 0 {
        match r { Ok(_) => assert!(false), Err(e) => core::mem::forget(e) }
        return;
    }
    let v: u64 = (b[0] as u64) | (b[1] as u64) << 8 | (b[2] as u64) << 16 | (b[3] as u64) << 24 | (b[4] as u64) << 32;
    let ty = v & 3;
    let sf = (v >> 2) & 3;
    let (need, regen, comp, streams): (usize, u64, Option<u64>, Option<u8>) = if ty < 2 {
        match sf {
            0 | 2 => (1, v >> 3 & 0x1F, None, None),
            1 => (2, v >> 4 & 0xFFF, None, None),
            _ => (3, v >> 4 & 0xFFFFF, None, None),
        }
    } else {
        match sf {
            0 => (3, v >> 4 & 0x3FF, Some(v >> 14 & 0x3FF), Some(1)),
            1 => (3, v >> 4 & 0x3FF, Some(v >> 14 & 0x3FF), Some(4)),
            2 => (4, v >> 4 & 0x3FFF, Some(v >> 18 & 0x3FFF), Some(4)),
            _ => (5, v >> 4 & 0x3FFFF, Some(v >> 22 & 0x3FFFF), Some(4)),
        }
    };
    if len < need {
        match r { Ok(_) => assert!(false, "short literals header accepted"), Err(e) => core::mem::forget(e) }
        return;
    }
    let used = match r { Ok(u) => u, Err(e) => { core::mem::forget(e); panic!("well-formed literals header refused"); } };
    assert!(used as usize == need);
    assert!(s.regenerated_size as u64 == regen);
    match (s.compressed_size, comp) {
        (None, None) => {}
        (Some(a), Some(b)) => assert!(a as u64 == b),
        _ => assert!(false, "compressed size presence"),
    }
    let want_ty = match s.ls_type {
        LiteralsSectionType::Raw => 0,
        LiteralsSectionType::RLE => 1,
        LiteralsSectionType::Compressed => 2,
        LiteralsSectionType::Treeless => 3,
    };
    assert!(want_ty == ty);
    if ty >= 2 { assert!(s.num_streams == streams); }
    nd_cover!(ty == 3 && sf == 3 && len == 5, "treeless 18-bit form");
    nd_cover!(ty == 0 && sf == 3, "raw 20-bit form");
    nd_cover!(ty == 1 && sf == 1, "rle 12-bit form");
} }
