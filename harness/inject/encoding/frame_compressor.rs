// Child module of encoding/frame_compressor.rs: the frame loop of FrameCompressor::compress with a scaled-down block
// size (a 4-byte-slice matcher through the public new_with_matcher), level Uncompressed.  C02/C15 (+C08 with the hash shim).
use super::*;
use crate::verif_nd as nd;
use crate::verif_nd::{harness, nd_cover};
use crate::encoding::Sequence;

const BS: usize = 4;
pub(crate) struct Slice4Matcher;
impl Matcher for Slice4Matcher {
    fn get_next_space(&mut self) -> Vec<u8> { let mut v = Vec::with_capacity(BS); v.push(0); v.push(0); v.push(0); v.push(0); v }
    fn get_last_space(&mut self) -> &[u8] { &[] }
    fn commit_space(&mut self, _s: Vec<u8>) {}
    fn skip_matching(&mut self) {}
    fn start_matching(&mut self, _h: impl for<'a> FnMut(Sequence<'a>)) {}
    fn reset(&mut self, _l: CompressionLevel) {}
    fn window_size(&self) -> u64 { 1024 }
}

/// input reader over a fixed array, index copies, at most `chunk` bytes per read (fragmentation)
pub(crate) struct ArrIn { data: [u8; 16], pos: usize, len: usize, chunk: usize }
impl Read for ArrIn {
    fn read(&mut self, buf: &mut [u8]) -> Result<usize, crate::io::Error> {
        let mut n = self.len - self.pos;
        if buf.len() < n { n = buf.len(); }
        if self.chunk < n { n = self.chunk; }
        let mut k = 0;
        while k < n { buf[k] = self.data[self.pos + k]; k += 1; }
        self.pos += n;
        Ok(n)
    }
}
/// output sink into a fixed array, index copies
pub(crate) struct ArrOut { data: [u8; 64], n: usize }
impl Write for ArrOut {
    fn write(&mut self, buf: &[u8]) -> Result<usize, crate::io::Error> {
        let mut k = 0;
        while k < buf.len() { self.data[self.n + k] = buf[k]; k += 1; }
        self.n += buf.len();
        Ok(buf.len())
    }
    fn flush(&mut self) -> Result<(), crate::io::Error> { Ok(()) }
}

/// RFC 8878 serialisation of `len` input bytes as raw blocks of at most 4 bytes (what a conforming frame with these
/// blocks must look like): returns the expected length; `exp` receives the bytes
fn expected(input: &[u8; 16], len: usize, exp: &mut [u8; 64]) -> usize {
    exp[0] = 0x28; exp[1] = 0xB5; exp[2] = 0x2F; exp[3] = 0xFD;
    exp[4] = if cfg!(feature = "hash") { 0x04 } else { 0x00 };
    exp[5] = 1 << 3; // window of the matcher (1 KiB) rounded up as the header writer does: exponent 1, 2 KiB
    let mut p = 6;
    let mut off = 0;
    loop {
        let rest = len - off;
        let n = if rest > BS { BS } else { rest };
        // a block is the last one iff the reader reported the end while it was being filled, i.e. it is not full
        let last = n < BS;
        let h: u32 = ((n as u32) << 3) | (last as u32);
        exp[p] = h as u8; exp[p + 1] = (h >> 8) as u8; exp[p + 2] = (h >> 16) as u8;
        p += 3;
        let mut k = 0;
        while k < n { exp[p + k] = input[off + k]; k += 1; }
        p += n; off += n;
        if last { break; }
    }
    p
}

fn one_frame(fc: &mut FrameCompressor<ArrIn, ArrOut, Slice4Matcher>, len: usize, chunk: usize) {
    let mut input = [0u8; 16];
    let mut k = 0;
    while k < len { input[k] = nd::any(); k += 1; }
    fc.set_source(ArrIn { data: input, pos: 0, len, chunk });
    fc.set_drain(ArrOut { data: [0u8; 64], n: 0 });
    fc.compress();
    let out = fc.take_drain().unwrap();
    let src = fc.take_source().unwrap();
    assert!(src.pos == len, "input not read to the end");
    let mut exp = [0u8; 64];
    let elen = expected(&input, len, &mut exp);
    #[cfg(feature = "hash")]
    {
        // C08: the hasher saw exactly the input since the start of this frame; the trailer is the low 32 bits of its finish value
        let (wl, wa) = twox_hash::reference_state(&input[..len]);
        assert!(fc.hasher.seed == 0 && fc.hasher.len == wl && fc.hasher.acc == wa, "bytes hashed by the compressor differ from the input of this frame");
        let t = (twox_hash::reference_finish(0, wl, wa) as u32).to_le_bytes();
        assert!(out.n == elen + 4, "frame length (with checksum trailer)");
        assert!(out.data[elen] == t[0] && out.data[elen + 1] == t[1] && out.data[elen + 2] == t[2] && out.data[elen + 3] == t[3], "checksum trailer is not the hash of the input");
    }
    #[cfg(not(feature = "hash"))]
    assert!(out.n == elen, "frame length differs from the raw-block serialisation of the input");
    // never larger than input + fixed framing overhead (C15)
    assert!(out.n <= len + 6 + 3 * (len / BS + 1) + 4);
    let i: usize = nd::any();
    nd::assume(i < elen);
    assert!(out.data[i] == exp[i], "frame bytes differ from the raw-block serialisation of the input");
}

fn frame_loop(len1: usize, chunk1: usize, second: Option<(usize, usize)>) {
    // built field by field (what new_with_matcher does) except that the three default FSE tables - never read at level
    // Uncompressed - are left uninitialised: constructing 3 x 256 symbol-state vectors alone exhausted 8 GB in CBMC
    let mut fc: FrameCompressor<ArrIn, ArrOut, Slice4Matcher> = FrameCompressor {
        uncompressed_data: None,
        compressed_data: None,
        compression_level: CompressionLevel::Uncompressed,
        state: CompressState { matcher: Slice4Matcher, last_huff_table: None, fse_tables: unsafe { core::mem::MaybeUninit::<FseTables>::uninit().assume_init() } },
        #[cfg(feature = "hash")]
        hasher: XxHash64::with_seed(0),
    };
    one_frame(&mut fc, len1, chunk1);
    if let Some((len2, chunk2)) = second { one_frame(&mut fc, len2, chunk2); } // reused compressor == fresh compressor
    nd_cover!(true, "frames written");
    core::mem::forget(fc);
}
harness! { fn fc_loop_len0() { frame_loop(0, usize::MAX, None); } }
harness! { fn fc_loop_len3() { frame_loop(3, usize::MAX, None); } }
harness! { fn fc_loop_len4_exact_block() { frame_loop(4, usize::MAX, None); } }
harness! { fn fc_loop_len5_frag1() { frame_loop(5, 1, None); } }
harness! { fn fc_loop_len8_frag3() { frame_loop(8, 3, None); } }
harness! { fn fc_loop_len9_frag5() { frame_loop(9, 5, None); } }
harness! { fn fc_loop_reuse_5_then_2() { frame_loop(5, 2, Some((2, usize::MAX))); } }
harness! { fn fc_loop_reuse_4_then_0() { frame_loop(4, usize::MAX, Some((0, 1))); } }
#[cfg(feature = "hash")]
harness! { fn fc_hash_loop_len5_frag2() { frame_loop(5, 2, None); } }
#[cfg(feature = "hash")]
harness! { fn fc_hash_loop_reuse_5_then_3() { frame_loop(5, usize::MAX, Some((3, 1))); } }
