use super::*;
use crate::verif_nd as nd;
use crate::verif_nd::{harness, nd_cover};

// C14/C15: the header FrameCompressor writes (no content size, not single segment, no dictionary id; window from the
// matcher, checksum flag from the hash feature) is read back: flags equal, no dictionary, and the declared window is
// legal and at least the matcher's window.
harness! { fn production_frame_header_roundtrip() {
    let w: u64 = nd::any();
    nd::assume(w >= 1 && w <= 1 << 41);
    let ck: bool = nd::any();
    let mut out: Vec<u8> = Vec::with_capacity(32);
    FrameHeader { frame_content_size: None, single_segment: false, content_checksum: ck, dictionary_id: None, window_size: Some(w) }.serialize(&mut out);
    assert!(out.len() == 6);
    let mut src = &out[..];
    let (h, n) = match crate::decoding::frame::read_frame_header(&mut src) { Ok(x) => x, Err(e) => { core::mem::forget(e); panic!("own frame header refused"); } };
    assert!(n as usize == out.len());
    assert!(h.descriptor.content_checksum_flag() == ck);
    assert!(!h.descriptor.single_segment_flag());
    assert!(h.dictionary_id().is_none());
    assert!(h.frame_content_size() == 0);
    let ws = match h.window_size() { Ok(x) => x, Err(e) => { core::mem::forget(e); panic!("declared window illegal"); } };
    assert!(ws >= w, "declared window smaller than the matcher's window");
    assert!(ws >= 1024);
    nd_cover!(w == 1 << 41, "largest");
    nd_cover!(w == 1, "smallest");
} }
