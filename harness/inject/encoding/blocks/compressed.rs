// Harnesses injected as a child module of encoding/blocks/compressed.rs (sees its private fns).
use super::*;
use crate::blocks::literals_section::{LiteralsSection, LiteralsSectionType};
use crate::blocks::sequence_section::SequencesHeader;
use crate::decoding::sequence_section_decoder::verif_kani as dec;
use crate::verif_nd as nd;
use crate::verif_nd::{harness, nd_cover};

fn seqnum_roundtrip_in(lo: usize, hi: usize) {
    let n: usize = nd::any();
    nd::assume(n >= lo && n <= hi);
    let mut out: Vec<u8> = Vec::with_capacity(8);
    {
        let mut w = BitWriter::from(&mut out);
        encode_seqnum(n, &mut w);
        w.write_bits(0xA5u8, 8); // stands for the modes byte that always follows a non-zero count
        w.flush();
    }
    let mut h = SequencesHeader::new();
    let used = match h.parse_from_header(&out) {
        Ok(u) => u,
        Err(e) => {
            core::mem::forget(e);
            panic!("decoder rejects the sequence count the compressor wrote");
        }
    };
    assert!(h.num_sequences as usize == n, "sequence count does not round-trip");
    assert!(used as usize == out.len(), "sequences header length mismatch");
    nd_cover!(n == lo, "lowest count reachable");
    nd_cover!(n == hi, "highest count reachable");
}

// C14/C16: every sequence count the writer accepts, split at the boundaries of the three forms so that
// a defect in one form does not hide another (F3 lived in the last two sub-ranges).
harness! { fn seqnum_roundtrip_1_to_0x7eff() { seqnum_roundtrip_in(1, 0x7EFF); } }
harness! { fn seqnum_roundtrip_0x7f00_to_0x7fff() { seqnum_roundtrip_in(0x7F00, 0x7FFF); } }
harness! { fn seqnum_roundtrip_0x8000_to_max() { seqnum_roundtrip_in(0x8000, 0xFFFF + 0x7F00); } }

// RFC 8878 3.1.1.3.2.1.1 literals length codes, transcribed from the RFC table (not from either implementation)
const LL_BASE: [u32; 36] = [0, 1, 2, 3, 4, 5, 6, 7, 8, 9, 10, 11, 12, 13, 14, 15, 16, 18, 20, 22, 24, 28, 32, 40, 48, 64,
    128, 256, 512, 1024, 2048, 4096, 8192, 16384, 32768, 65536];
const LL_BITS: [u8; 36] = [0, 0, 0, 0, 0, 0, 0, 0, 0, 0, 0, 0, 0, 0, 0, 0, 1, 1, 1, 1, 2, 2, 3, 3, 4, 6, 7, 8, 9, 10, 11, 12,
    13, 14, 15, 16];
const ML_BASE: [u32; 53] = [3, 4, 5, 6, 7, 8, 9, 10, 11, 12, 13, 14, 15, 16, 17, 18, 19, 20, 21, 22, 23, 24, 25, 26, 27, 28,
    29, 30, 31, 32, 33, 34, 35, 37, 39, 41, 43, 47, 51, 59, 67, 83, 99, 131, 259, 515, 1027, 2051, 4099, 8195, 16387, 32771,
    65539];
const ML_BITS: [u8; 53] = [0, 0, 0, 0, 0, 0, 0, 0, 0, 0, 0, 0, 0, 0, 0, 0, 0, 0, 0, 0, 0, 0, 0, 0, 0, 0, 0, 0, 0, 0, 0, 0, 1,
    1, 1, 1, 2, 2, 3, 3, 4, 4, 5, 7, 8, 9, 10, 11, 12, 13, 14, 15, 16];

harness! { fn ll_code_roundtrip_and_spec() {
    let len: u32 = nd::any();
    nd::assume(len <= 131071);
    let (code, add, nbits) = encode_literal_length(len);
    assert!(code <= 35);
    let (base, dbits) = dec::lookup_ll_code(code);
    // decoder table == RFC table
    assert!(base == LL_BASE[code as usize] && dbits == LL_BITS[code as usize]);
    // encoder emits exactly the extra bits the decoder will read and the value is recovered
    assert!(dbits as usize == nbits);
    assert!((add as u64) < (1u64 << nbits));
    assert!(base + add == len);
    nd_cover!(len == 131071, "largest literal length");
    nd_cover!(code == 24, "mid table");
} }

harness! { fn ml_code_roundtrip_and_spec() {
    let len: u32 = nd::any();
    nd::assume(len >= 3 && len <= 131074);
    let (code, add, nbits) = encode_match_len(len);
    assert!(code <= 52);
    let (base, dbits) = dec::lookup_ml_code(code);
    assert!(base == ML_BASE[code as usize] && dbits == ML_BITS[code as usize]);
    assert!(dbits as usize == nbits);
    assert!((add as u64) < (1u64 << nbits));
    assert!(base + add == len);
    nd_cover!(len == 131074, "largest match length");
    nd_cover!(code == 42, "mid table");
} }

harness! { fn ll_ml_decoder_tables_equal_rfc() {
    let c: u8 = nd::any();
    nd::assume(c <= 52);
    if c <= 35 {
        let (b, n) = dec::lookup_ll_code(c);
        assert!(b == LL_BASE[c as usize] && n == LL_BITS[c as usize]);
    }
    let (b, n) = dec::lookup_ml_code(c);
    assert!(b == ML_BASE[c as usize] && n == ML_BITS[c as usize]);
    nd_cover!(c == 52, "last code");
} }

harness! { fn of_code_roundtrip() {
    let v: u32 = nd::any();
    nd::assume(v >= 1);
    let (code, add, nbits) = encode_offset(v);
    assert!(code <= crate::blocks::sequence_section::MAX_OFFSET_CODE);
    assert!(nbits == code as usize);
    assert!((add as u64) < (1u64 << nbits));
    // the decoder computes offset = (1 << code) + extra bits
    assert!((1u32 << code) + add == v);
    nd_cover!(v == u32::MAX, "largest offset value");
    nd_cover!(v == 1, "smallest offset value");
} }

// C14: the literals-section header written by raw_literals (the 20-bit raw form) parses back
fn raw_literals_header<const N: usize>() {
    let lits: [u8; N] = nd::any();
    let mut out: Vec<u8> = Vec::with_capacity(N + 8);
    {
        let mut w = BitWriter::from(&mut out);
        raw_literals(&lits, &mut w);
        w.flush();
    }
    let mut s = LiteralsSection::new();
    let used = match s.parse_from_header(&out) { Ok(u) => u, Err(e) => { core::mem::forget(e); panic!("raw literals header rejected"); } };
    assert!(used == 3);
    assert!(matches!(s.ls_type, LiteralsSectionType::Raw));
    assert!(s.regenerated_size as usize == N);
    assert!(s.compressed_size.is_none());
    assert!(out.len() == 3 + N);
    nd_cover!(true, "reached");
    if N > 0 {
        let i: usize = nd::any();
        nd::assume(i < N);
        assert!(out[3 + i] == lits[i]);
    }
}
harness! { fn raw_literals_header_n0() { raw_literals_header::<0>(); } }
harness! { fn raw_literals_header_n5() { raw_literals_header::<5>(); } }

harness! { fn raw_literals_header_n32() { raw_literals_header::<32>(); } }
harness! { fn raw_literals_header_n4096() { raw_literals_header::<4096>(); } }

/// pass-throughs for harnesses that live in other modules
pub(crate) fn enc_ll(len: u32) -> (u8, u32, usize) { encode_literal_length(len) }
pub(crate) fn enc_ml(len: u32) -> (u8, u32, usize) { encode_match_len(len) }
pub(crate) fn enc_of(v: u32) -> (u8, u32, usize) { encode_offset(v) }

// ------------------------------------------------------------------------------------------------ S5
/// S5 stub body: every behaviour of the block encoder the framing code of compress_fastest can observe
pub(crate) fn havoc_compress_block<MM: Matcher>(state: &mut CompressState<MM>, output: &mut Vec<u8>) {
    let n: usize = nd::any();
    nd::assume(n <= 6);
    let bytes: [u8; 6] = nd::any();
    output.extend_from_slice(&bytes[..n]);
    let new_table: bool = nd::any();
    if new_table { state.last_huff_table = Some(crate::huff0::huff0_encoder::verif_kani::marker_table(2)); }
}
