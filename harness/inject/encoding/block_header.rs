use super::*;
use crate::verif_nd as nd;
use crate::verif_nd::{harness, nd_cover};

// C14/C15: every block header the compressor can write is read back to the same values
harness! { fn block_header_roundtrip() {
    let size: u32 = nd::any();
    nd::assume(size <= 128 * 1024);
    let ty: u8 = nd::any();
    nd::assume(ty < 3);
    let last: bool = nd::any();
    let bt = match ty { 0 => BlockType::Raw, 1 => BlockType::RLE, _ => BlockType::Compressed };
    let mut out: Vec<u8> = Vec::with_capacity(8);
    BlockHeader { last_block: last, block_type: bt, block_size: size }.serialize(&mut out);
    assert!(out.len() == 3);
    let mut d = crate::decoding::block_decoder::new();
    let (h, n) = match d.read_block_header(&out[..]) { Ok(x) => x, Err(e) => { core::mem::forget(e); panic!("own block header refused"); } };
    assert!(n == 3);
    assert!(h.last_block == last && h.block_type == bt);
    match bt {
        BlockType::RLE => assert!(h.decompressed_size == size && h.content_size == 1),
        BlockType::Raw => assert!(h.decompressed_size == size && h.content_size == size),
        _ => assert!(h.content_size == size),
    }
    nd_cover!(size == 128 * 1024 && last, "max size last block");
    nd_cover!(ty == 1, "rle");
} }
