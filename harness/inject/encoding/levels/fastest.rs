use super::*;
use crate::verif_nd as nd;
use crate::verif_nd::{harness, nd_cover};
use crate::encoding::frame_compressor::FseTables;
use crate::encoding::{CompressionLevel, Sequence};

pub(crate) struct StubMatcher { pub space: Vec<u8> }
impl Matcher for StubMatcher {
    fn get_next_space(&mut self) -> Vec<u8> { Vec::new() }
    fn get_last_space(&mut self) -> &[u8] { &self.space }
    fn commit_space(&mut self, s: Vec<u8>) { self.space = s; }
    fn skip_matching(&mut self) {}
    fn start_matching(&mut self, _h: impl for<'a> FnMut(Sequence<'a>)) {}
    fn reset(&mut self, _l: CompressionLevel) {}
    fn window_size(&self) -> u64 { 1024 }
}

fn empty() -> crate::fse::fse_encoder::FSETable { crate::fse::fse_encoder::verif_kani::empty_table() }

// C15/C16: per-block framing of compress_fastest for EVERY behaviour of the block encoder (S5 havoc) on any 4-byte block:
// header type/size/last flag consistent with the body, body never larger than the block, RLE iff all bytes equal,
// raw fallback writes the committed bytes, and the encoder's belief about the decoder's Huffman table only changes
// when a compressed block (which carries that table) is emitted.
fn fastest_framing(had_table: bool) {
    let data: [u8; 4] = nd::any();
    let mut st = CompressState {
        matcher: StubMatcher { space: Vec::new() },
        last_huff_table: if had_table { Some(crate::huff0::huff0_encoder::verif_kani::marker_table(1)) } else { None },
        // never read by compress_fastest itself (only by the block encoder, which is S5 here); left uninitialised because
        // building three 256-entry tables dominates the symbolic execution
        fse_tables: unsafe { core::mem::MaybeUninit::<FseTables>::uninit().assume_init() },
    };
    let last: bool = nd::any();
    let mut out: Vec<u8> = Vec::with_capacity(64);
    let mut v: Vec<u8> = Vec::with_capacity(4);
    v.push(data[0]); v.push(data[1]); v.push(data[2]); v.push(data[3]);
    compress_fastest(&mut st, last, v, &mut out);
    assert!(out.len() >= 3 && out.len() <= 3 + 4, "block larger than raw framing");
    let h = (out[0] as u32) | (out[1] as u32) << 8 | (out[2] as u32) << 16;
    assert!((h & 1 == 1) == last, "last-block flag");
    let ty = (h >> 1) & 3; let size = (h >> 3) as usize;
    let all_eq = data[0] == data[1] && data[1] == data[2] && data[2] == data[3];
    // which table does the encoder now believe the decoder holds? 0 none, 1 the earlier one, 2 a newer one
    let belief = match &st.last_huff_table { None => 0, Some(t) => crate::huff0::huff0_encoder::verif_kani::marker_of(t) };
    if all_eq {
        assert!(ty == 1 && size == 4 && out.len() == 4 && out[3] == data[0], "RLE block malformed");
        assert!(belief == if had_table { 1 } else { 0 }, "Huffman table belief changed by an RLE block");
    } else if ty == 0 {
        assert!(size == 4 && out.len() == 7, "raw block malformed");
        assert!(out[3] == data[0] && out[4] == data[1] && out[5] == data[2] && out[6] == data[3], "raw fallback does not store the block's bytes");
        // a raw block carries no table: believing in a table the decoder never saw makes the next treeless block undecodable.
        // Forgetting the table (belief 0) is always safe.
        assert!(belief == 0 || (belief == 1 && had_table), "after a raw fallback the encoder believes the decoder holds a Huffman table it was never sent");
        nd_cover!(true, "raw fallback taken");
    } else {
        assert!(ty == 2 && size < 4 && out.len() == 3 + size, "compressed block malformed");
        nd_cover!(belief == 2, "compressed block with a new table");
    }
    core::mem::forget(st);
}
harness! { fn fastest_block_framing_no_earlier_table() { fastest_framing(false); } }
harness! { fn fastest_block_framing_earlier_table() { fastest_framing(true); } }
