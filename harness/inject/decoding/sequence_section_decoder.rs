use super::*;
use crate::verif_nd as nd;
use crate::verif_nd::{harness, nd_cover};

pub(crate) fn lookup_ll_code(c: u8) -> (u32, u8) { super::lookup_ll_code(c) }
pub(crate) fn lookup_ml_code(c: u8) -> (u32, u8) { super::lookup_ml_code(c) }

// ------------------------------------------------------------------------------------------------ C01: FSE-coded sequences
// decode_sequences (the real interleaved three-state decoder) on a symbolic bit stream, with the three tables injected
// (mode Repeat = "use the tables already in the scratch"), against a transcription of RFC 8878 3.1.1.4: initial states
// are read in the order literal lengths, offsets, match lengths; per sequence the extra bits are read in the order
// offset, match length, literal length; then (except after the last sequence) the states are updated in the order
// literal lengths, match lengths, offsets.
struct Bits { v: u32, pos: i32 } // pos = number of unread bits below the padding marker
impl Bits {
    fn get(&mut self, n: u32) -> u32 {
        // bits past the start of the stream read as zero (the real reader does the same and reports it as negative remaining)
        let mut out = 0u32;
        let mut k = 0;
        while k < n {
            self.pos -= 1;
            let bit = if self.pos >= 0 { (self.v >> self.pos) & 1 } else { 0 };
            out = (out << 1) | bit;
            k += 1;
        }
        out
    }
}
fn ll_of(code: u8) -> (u32, u32) { if code < 16 { (code as u32, 0) } else { (16 + 2 * (code as u32 - 16), 1) } } // codes 0..=19 only
fn ml_of(code: u8) -> (u32, u32) { if code < 32 { (code as u32 + 3, 0) } else { (35 + 2 * (code as u32 - 32), 1) } } // codes 0..=35 only

fn seqdec_two_sequences<const NSEQ: usize, const LEN: usize>() {
    // symbols of the two states of each table
    const LL: [u8; 2] = [2, 16];   // literal length 2 (no extra bits) / 16..17 (1 extra bit)
    const OF: [u8; 2] = [1, 3];    // offset value 2..3 (1 extra bit) / 8..15 (3 extra bits)
    const ML: [u8; 2] = [0, 33];   // match length 3 / 37..38 (1 extra bit)
    let mut scratch = FSEScratch::new();
    crate::fse::verif_kani::inject_two_state_table(&mut scratch.literal_lengths, LL[0], LL[1]);
    crate::fse::verif_kani::inject_two_state_table(&mut scratch.offsets, OF[0], OF[1]);
    crate::fse::verif_kani::inject_two_state_table(&mut scratch.match_lengths, ML[0], ML[1]);
    let hdr_bytes = [NSEQ as u8, 0xFCu8]; // count, modes: Repeat for all three tables
    let mut section = SequencesHeader::new();
    match section.parse_from_header(&hdr_bytes) { Ok(_) => {}, Err(e) => { core::mem::forget(e); panic!("header"); } }
    let mut stream: [u8; 3] = nd::any();
    // stream length 1..=3 bytes so that exact consumption is possible for every combination of states (8..16 bits are
    // needed for two sequences); a last byte without the padding marker is a different error (ExtraPadding), decided elsewhere
    // the stream length is case-split (LEN = 0: symbolic 1..=3)
    let len: usize = if LEN == 0 { nd::any() } else { LEN };
    nd::assume(len >= 1 && len <= 3);
    nd::assume(stream[len - 1] != 0);
    if len < 3 { stream[2] = 0; }
    if len < 2 { stream[1] = 0; }
    let mut target: Vec<Sequence> = Vec::with_capacity(4);
    let r = decode_sequences(&section, &stream[..len], &mut scratch, &mut target);
    // ---- model
    let v = (stream[0] as u32) | (stream[1] as u32) << 8 | (stream[2] as u32) << 16;
    let marker = 31 - v.leading_zeros() as i32; // position of the padding marker
    let mut b = Bits { v, pos: marker };
    let mut ll_s = b.get(1) as usize; let mut of_s = b.get(1) as usize; let mut ml_s = b.get(1) as usize;
    let mut want = [(0u32, 0u32, 0u32); NSEQ];
    let mut i = 0;
    while i < NSEQ {
        let (llv, llb) = ll_of(LL[ll_s]); let (mlv, mlb) = ml_of(ML[ml_s]); let ofc = OF[of_s] as u32;
        let ofx = b.get(ofc); let mlx = b.get(mlb); let llx = b.get(llb);
        want[i] = (llv + llx, mlv + mlx, (1u32 << ofc) + ofx);
        if i + 1 < NSEQ { ll_s = b.get(1) as usize; ml_s = b.get(1) as usize; of_s = b.get(1) as usize; }
        i += 1;
    }
    match r {
        Ok(()) => {
            assert!(b.pos == 0, "sequence section accepted although the bit stream was not consumed exactly");
            assert!(target.len() == NSEQ);
            let j: usize = nd::any(); nd::assume(j < NSEQ);
            assert!(target[j].ll == want[j].0 && target[j].ml == want[j].1 && target[j].of == want[j].2, "decoded sequence differs from the RFC decoding order");
            nd_cover!(NSEQ < 2 || LEN == 3 || (want[0].0 >= 16 && want[1].2 >= 8), "extra bits of several kinds in use");
            nd_cover!(NSEQ < 2 || LEN == 3 || (want[1].0 < 16 && want[1].1 > 3), "second sequence: literal-length state 0 with match-length state 1");
            nd_cover!(NSEQ < 2 || LEN == 3 || (want[1].0 >= 16 && want[1].1 == 3), "second sequence: literal-length state 1 with match-length state 0");
        }
        Err(e) => { core::mem::forget(e); assert!(b.pos != 0, "sequence section refused although the bit stream is consumed exactly"); }
    }
    nd_cover!(LEN == 3 || b.pos < 0, "stream too short");
    nd_cover!(b.pos > 0, "left-over bits");
    core::mem::forget(target); core::mem::forget(scratch);
}
harness! { fn seqdec_repeat_tables_one_sequence() { seqdec_two_sequences::<1, 0>(); } }
harness! { fn seqdec_repeat_tables_two_sequences_len2() { seqdec_two_sequences::<2, 2>(); } }
harness! { fn seqdec_repeat_tables_two_sequences_len3() { seqdec_two_sequences::<2, 3>(); } }
harness! { fn seqdec_repeat_tables_two_sequences_len1() { seqdec_two_sequences::<2, 1>(); } }
harness! { fn seqdec_repeat_tables_three_sequences() { seqdec_two_sequences::<3, 0>(); } }
