use super::*;
use crate::verif_nd as nd;
use crate::verif_nd::{harness, nd_cover};

pub(crate) fn lookup_ll_code(c: u8) -> (u32, u8) { super::lookup_ll_code(c) }
pub(crate) fn lookup_ml_code(c: u8) -> (u32, u8) { super::lookup_ml_code(c) }
