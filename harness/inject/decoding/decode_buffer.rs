use super::*;
use crate::verif_nd as nd;
use crate::verif_nd::{harness, nd_cover};

/// replace the ring of a DecodeBuffer (private field) - used by harnesses in other modules
pub(crate) fn set_ring(db: &mut DecodeBuffer, rb: RingBuffer) {
    let old = core::mem::replace(&mut db.buffer, rb);
    core::mem::forget(old);
}
pub(crate) fn total_output_counter(db: &DecodeBuffer) -> u64 { db.total_output_counter }
pub(crate) fn set_total_output_counter(db: &mut DecodeBuffer, v: u64) { db.total_output_counter = v; }

// ------------------------------------------------------------------------------------------------ C01/C09 window copy
// DecodeBuffer::repeat against the LZ77 model over dict ++ output: overlapping matches, matches that start in the
// dictionary and continue in the output in every alignment, offsets beyond dictionary + output, and the
// "dictionary only while the output is within the window" rule.  Ring operations below are S1 (fixed ring) and S13
// (contract of copy-from-within, preconditions asserted).
fn db_repeat_model<const MAXML: usize, const DL: usize, const L: usize>() {
    nd::set_stub_arg(0, 33);
    let dict: [u8; 4] = nd::any();
    let data: [u8; 4] = nd::any();
    // dictionary and output lengths are case-split (fully symbolic lengths exhausted 10 GB)
    let dl: usize = DL; let l: usize = L;
    let w: usize = nd::any();
    let mut db = DecodeBuffer::new(w);
    db.dict_content.extend_from_slice(&dict[..dl]);
    db.push(&data[..l]);
    let toc: u64 = nd::any();
    nd::assume(toc <= 1 << 40);
    db.total_output_counter = toc;
    let offset: usize = nd::any(); let ml: usize = nd::any();
    nd::assume(offset >= 1); // established by execute_sequences (exec_never_repeats_offset_zero)
    nd::assume(ml <= MAXML);
    // model
    let mut c = [0u8; 16];
    let mut k = 0; while k < 4 { if k < dl { c[k] = dict[k]; } k += 1; }
    let mut k = 0; while k < 4 { if k < l { c[dl + k] = data[k]; } k += 1; }
    let reach_ok = offset <= dl + l;
    if reach_ok { let mut k = 0; while k < MAXML { if k < ml { c[dl + l + k] = c[dl + l + k - offset]; } k += 1; } }
    let r = db.repeat(offset, ml);
    match r {
        Ok(()) => {
            assert!(reach_ok, "match offset beyond dictionary plus output accepted");
            assert!(offset <= l || toc <= w as u64, "dictionary used although the output has left the window");
            assert!(db.len() == l + ml, "wrong number of bytes appended");
            nd_cover!(DL == 0 || (offset > l && offset - l < ml), "match starts in the dictionary and continues in the output");
            nd_cover!(L == 0 || (offset <= l && offset < ml), "overlapping match");
            nd_cover!(DL == 0 || offset == l + dl, "match reaches the very first dictionary byte");
            if l + ml > 0 {
                let i: usize = nd::any();
                nd::assume(i < l + ml);
                let (s1, s2) = db.buffer.as_slices();
                let got = if i < s1.len() { s1[i] } else { s2[i - s1.len()] };
                assert!(got == c[dl + i], "window copy differs from the LZ77 model over dict ++ output");
            }
        }
        Err(e) => {
            core::mem::forget(e);
            assert!(offset > l, "match inside the output refused");
            assert!(!reach_ok || toc > w as u64, "match reaching into an accessible dictionary refused");
            nd_cover!(!reach_ok, "offset beyond dictionary plus output");
            nd_cover!(DL == 0 || (reach_ok && toc > w as u64), "dictionary no longer accessible");
        }
    }
    core::mem::forget(db);
}
harness! { fn db_repeat_model_d2_o3() { db_repeat_model::<4, 2, 3>(); } }
harness! { fn db_repeat_model_d1_o1() { db_repeat_model::<4, 1, 1>(); } }
harness! { fn db_repeat_model_d2_o1() { db_repeat_model::<4, 2, 1>(); } }
harness! { fn db_repeat_model_d0_o4() { db_repeat_model::<4, 0, 4>(); } }
harness! { fn db_repeat_model_d3_o0() { db_repeat_model::<4, 3, 0>(); } }
harness! { fn db_repeat_model_d4_o1() { db_repeat_model::<4, 4, 1>(); } }
harness! { fn db_repeat_model_d1_o2_ml8() { db_repeat_model::<8, 1, 2>(); } }
harness! { fn db_repeat_model_d0_o3_ml8() { db_repeat_model::<8, 0, 3>(); } }

// C06: drain into a sink that takes any prefix and then stops with Ok(0) or WouldBlock: exactly the accepted bytes
// leave the buffer, the rest stays in order; the drop count handed to the ring never exceeds its length.
/// takes `accept` bytes, then answers ONE stop (Ok(0) or WouldBlock), then is willing to take `resume` more bytes
struct PSink { buf: [u8; 16], n: usize, accept: usize, block: bool, resume: usize, stopped: bool }
impl Write for PSink {
    fn write(&mut self, b: &[u8]) -> Result<usize, Error> {
        if self.accept == 0 {
            if !self.stopped && self.resume > 0 { self.stopped = true; self.accept = self.resume; self.resume = 0;
                if self.block { return Err(Error::from(crate::io::ErrorKind::WouldBlock)); }
                return Ok(0);
            }
            if self.block { return Err(Error::from(crate::io::ErrorKind::WouldBlock)); }
            return Ok(0);
        }
        let k = if b.len() < self.accept { b.len() } else { self.accept };
        let mut j = 0; while j < k { self.buf[self.n + j] = b[j]; j += 1; }
        self.n += k; self.accept -= k;
        Ok(k)
    }
    fn flush(&mut self) -> Result<(), Error> { Ok(()) }
}
harness! { fn db_drain_partial_sink() {
    nd::set_stub_arg(0, 9);
    let data: [u8; 8] = nd::any();
    let pre: usize = nd::any(); let l: usize = nd::any();
    nd::assume(pre <= 6 && l >= 1 && l <= 8);
    let w: usize = nd::any();
    nd::assume(w <= 8);
    let mut db = DecodeBuffer::new(w);
    // move head so that the content wraps in the 9-byte ring for some `pre`
    let junk = [0u8; 8];
    if pre > 0 {
        // (drop_first_n on a never-allocated ring divides by cap = 0; its only caller, DrainGuard, never does that:
        // it drops only when something was written out of a non-empty ring)
        db.push(&junk[..pre]);
        db.buffer.drop_first_n(pre);
    }
    db.push(&data[..l]);
    let accept: usize = nd::any();
    nd::assume(accept <= 8);
    let keep_window: bool = nd::any();
    let resume: usize = nd::any();
    nd::assume(resume <= 8 - accept);
    let mut sink = PSink { buf: [0; 16], n: 0, accept, block: nd::any(), resume, stopped: false };
    let r = if keep_window { db.drain_to_window_size_writer(&mut sink) } else { db.drain_to_writer(&mut sink) };
    let drainable = if keep_window { if l > w { l - w } else { 0 } } else { l };
    let taken = if accept < drainable { accept } else { drainable };
    assert!(sink.n == taken, "sink received a different number of bytes than it accepted");
    assert!(db.len() == l - taken, "bytes lost or duplicated when the sink stopped early");
    match r { Ok(n) => assert!(n == taken, "reported count differs from what the sink took"), Err(e) => { core::mem::forget(e); assert!(sink.block && accept < drainable); } }
    let i: usize = nd::any();
    nd::assume(i < l);
    if i < taken { assert!(sink.buf[i] == data[i], "bytes handed to the sink out of order"); }
    else {
        let (s1, s2) = db.buffer.as_slices();
        let k = i - taken;
        let got = if k < s1.len() { s1[k] } else { s2[k - s1.len()] };
        assert!(got == data[i], "remaining bytes changed");
    }
    nd_cover!(pre + l > 9 && taken > 0 && taken < l, "wrapped content, partial drain");
    nd_cover!(pre + l > 9 && taken > 0 && taken < l && resume > 0 && !sink.block, "sink stops inside the first segment and would take more afterwards");
    nd_cover!(keep_window && l > w && accept >= l - w, "drain down to the window");
    core::mem::forget(db);
} }

// ------------------------------------------------------------------------------------------------ C08 (hash feature + shim)
// Which bytes reach the hasher: after any first drain operation followed by a complete drain, the hasher has seen
// exactly the buffer's bytes, once, in order; reset() restarts it.  OP: 0 drain_to_writer(partial/resuming sink),
// 1 drain_to_window_size_writer, 2 read (window-respecting), 3 read_all, 4 drain_to_window_size (Vec), then drain().
#[cfg(feature = "hash")]
fn db_hash_paths<const OP: u8>() {
    nd::set_stub_arg(0, 9);
    let data: [u8; 8] = nd::any();
    let pre: usize = nd::any(); let l: usize = nd::any();
    nd::assume(pre <= 6 && l >= 1 && l <= 8);
    let w: usize = nd::any();
    nd::assume(w <= 8);
    let mut db = DecodeBuffer::new(w);
    if pre > 0 { let junk = [0u8; 8]; db.push(&junk[..pre]); db.buffer.drop_first_n(pre); }
    db.push(&data[..l]);
    assert!(db.hash.len == 0 && db.hash.seed == 0, "bytes hashed before anything was handed out");
    let mut first = 0usize; // bytes handed out by the first operation
    match OP {
        0 | 1 => {
            let accept: usize = nd::any(); let resume: usize = nd::any();
            nd::assume(accept <= 8 && resume <= 8 - accept);
            let mut sink = PSink { buf: [0; 16], n: 0, accept, block: nd::any(), resume, stopped: false };
            let r = if OP == 0 { db.drain_to_writer(&mut sink) } else { db.drain_to_window_size_writer(&mut sink) };
            match r { Ok(_) => {}, Err(e) => core::mem::forget(e) }
            first = sink.n;
        }
        2 | 3 => {
            let k: usize = nd::any();
            nd::assume(k <= 8);
            let mut t = [0u8; 8];
            let r = if OP == 2 { Read::read(&mut db, &mut t[..k]) } else { db.read_all(&mut t[..k]) };
            first = match r { Ok(n) => n, Err(e) => { core::mem::forget(e); 0 } };
        }
        _ => { if let Some(v) = db.drain_to_window_size() { first = v.len(); core::mem::forget(v); } }
    }
    assert!(first <= l);
    let (wl, wa) = twox_hash::reference_state(&data[..first]);
    assert!(db.hash.len == wl && db.hash.acc == wa, "bytes hashed differ from the bytes handed out by the first drain operation");
    let rest = db.drain();
    assert!(rest.len() == l - first);
    core::mem::forget(rest);
    let (wl, wa) = twox_hash::reference_state(&data[..l]);
    assert!(db.hash.len == wl && db.hash.acc == wa, "after a complete drain the hasher has not seen exactly the delivered bytes in order");
    nd_cover!(pre + l > 9 && first > 0 && first < l, "wrapped content, partial first drain");
    nd_cover!(first == 0, "nothing handed out first");
    db.reset(w);
    assert!(db.hash.len == 0 && db.hash.acc == 0 && db.hash.seed == 0, "hash state survives reset");
    core::mem::forget(db);
}
#[cfg(feature = "hash")]
harness! { fn db_hash_sink_then_drain() { db_hash_paths::<0>(); } }
#[cfg(feature = "hash")]
harness! { fn db_hash_window_sink_then_drain() { db_hash_paths::<1>(); } }
#[cfg(feature = "hash")]
harness! { fn db_hash_read_then_drain() { db_hash_paths::<2>(); } }
#[cfg(feature = "hash")]
harness! { fn db_hash_read_all_then_drain() { db_hash_paths::<3>(); } }
#[cfg(feature = "hash")]
harness! { fn db_hash_collect_window_then_drain() { db_hash_paths::<4>(); } }
