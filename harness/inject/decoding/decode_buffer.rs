use super::*;
use crate::verif_nd as nd;
use crate::verif_nd::{harness, nd_cover};

/// replace the ring of a DecodeBuffer (private field) - used by harnesses in other modules
pub(crate) fn set_ring(db: &mut DecodeBuffer, rb: RingBuffer) {
    let old = core::mem::replace(&mut db.buffer, rb);
    core::mem::forget(old);
}
pub(crate) fn total_output_counter(db: &DecodeBuffer) -> u64 { db.total_output_counter }
pub(crate) fn set_total_output_counter(db: &mut DecodeBuffer, v: u64) { db.total_output_counter = v; }
