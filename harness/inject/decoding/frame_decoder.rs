// Child module of decoding/frame_decoder.rs.  Skeleton harnesses: the frame STRUCTURE (header layout, block types and
// sizes, cut position, driver schedule) is concrete per instance; every payload / trailer / trailing byte is symbolic.
// The source is ArrSrc, a Read over a fixed array that copies with plain indexing: CBMC then constant-propagates the
// concrete header bytes, the whole driver path is explored without any stub, and only payload bytes stay symbolic.
use super::*;
use crate::verif_nd as nd;
use crate::verif_nd::{harness, nd_cover};

pub(crate) const MAXF: usize = 48; // frame buffer
pub(crate) const MAXC: usize = 24; // content buffer

#[derive(Clone, Copy)]
pub(crate) struct Blk { pub rle: bool, pub size: usize }

#[derive(Clone, Copy)]
pub(crate) struct Skel {
    /// true: single segment, one byte content size (= `declared`); false: window descriptor byte `wd`
    pub single: bool,
    pub declared: u8,
    pub wd: u8,
    pub checksum: bool,
    pub nblocks: usize,
    pub blocks: [Blk; 3],
}

pub(crate) struct Built { pub data: [u8; MAXF + 4], pub flen: usize, pub content: [u8; MAXC], pub clen: usize, pub trailer: u32 }

/// RFC 8878 serialisation of the skeleton with fresh symbolic payload bytes, followed by two symbolic bytes that do not
/// belong to the frame.
pub(crate) fn build(sk: &Skel) -> Built {
    let mut f = [0u8; MAXF + 4];
    let mut c = [0u8; MAXC];
    f[0] = 0x28; f[1] = 0xB5; f[2] = 0x2F; f[3] = 0xFD;
    let mut d: u8 = 0;
    if sk.single { d |= 0x20; }
    if sk.checksum { d |= 0x04; }
    f[4] = d;
    f[5] = if sk.single { sk.declared } else { sk.wd };
    let mut p = 6;
    let mut cl = 0;
    let mut b = 0;
    while b < sk.nblocks {
        let blk = sk.blocks[b];
        let last = b + 1 == sk.nblocks;
        let h: u32 = ((blk.size as u32) << 3) | (if blk.rle { 1 << 1 } else { 0 }) | (last as u32);
        f[p] = h as u8; f[p + 1] = (h >> 8) as u8; f[p + 2] = (h >> 16) as u8;
        p += 3;
        if blk.rle {
            let v: u8 = nd::any();
            f[p] = v; p += 1;
            let mut k = 0;
            while k < blk.size { c[cl] = v; cl += 1; k += 1; }
        } else {
            let mut k = 0;
            while k < blk.size { let v: u8 = nd::any(); f[p] = v; p += 1; c[cl] = v; cl += 1; k += 1; }
        }
        b += 1;
    }
    let mut trailer = 0u32;
    if sk.checksum {
        let t0: u8 = nd::any(); let t1: u8 = nd::any(); let t2: u8 = nd::any(); let t3: u8 = nd::any();
        f[p] = t0; f[p + 1] = t1; f[p + 2] = t2; f[p + 3] = t3;
        trailer = (t0 as u32) | (t1 as u32) << 8 | (t2 as u32) << 16 | (t3 as u32) << 24;
        p += 4;
    }
    let e0: u8 = nd::any(); let e1: u8 = nd::any();
    f[p] = e0; f[p + 1] = e1;
    Built { data: f, flen: p, content: c, clen: cl, trailer }
}

/// A reader over a fixed array that copies byte by byte with plain indexing and hands out at most `chunk` bytes per
/// call (source fragmentation).  `len` may be smaller than the frame (truncation) or larger (trailing bytes).
pub(crate) struct ArrSrc { pub data: [u8; MAXF + 4], pub pos: usize, pub len: usize, pub chunk: usize, pub failed: bool, pub prune: bool }
impl Read for ArrSrc {
    fn read(&mut self, buf: &mut [u8]) -> Result<usize, Error> {
        if self.failed && self.prune { nd::stop(); }
        let mut n = self.len - self.pos;
        if buf.len() < n { n = buf.len(); }
        if self.chunk < n { n = self.chunk; }
        let mut k = 0;
        while k < n { buf[k] = self.data[self.pos + k]; k += 1; }
        self.pos += n;
        Ok(n)
    }
    // Same contract as the default read_exact (all-or-error, source exhausted on error); written out so that the EOF
    // error is a plain ErrorKind value (std's default returns a pointer-tagged static that CBMC cannot constant-fold,
    // which makes it explore the success continuation of every failed read as well).
    fn read_exact(&mut self, buf: &mut [u8]) -> Result<(), Error> {
        if !self.prune {
            // std's default algorithm (through `read`, so fragmentation applies)
            let mut done = 0;
            while done < buf.len() {
                let n = match self.read(&mut buf[done..]) { Ok(n) => n, Err(e) => return Err(e) };
                if n == 0 { return Err(Error::from(crate::io::ErrorKind::UnexpectedEof)); }
                done += n;
            }
            return Ok(());
        }
        if self.failed { nd::stop(); }
        let avail = self.len - self.pos;
        if avail < buf.len() {
            self.pos = self.len;
            self.failed = true;
            return Err(Error::from(crate::io::ErrorKind::UnexpectedEof));
        }
        let mut k = 0;
        while k < buf.len() { buf[k] = self.data[self.pos + k]; k += 1; }
        self.pos += buf.len();
        Ok(())
    }
}
pub(crate) fn src_of(b: &Built, len: usize, chunk: usize) -> ArrSrc { ArrSrc { data: b.data, pos: 0, len, chunk, failed: false, prune: false } }

const fn blk(rle: bool, size: usize) -> Blk { Blk { rle, size } }
const NOBLK: Blk = Blk { rle: false, size: 0 };

// The core skeleton list (DESIGN 4 C01).
pub(crate) const SK_RAW0: Skel = Skel { single: true, declared: 0, wd: 0, checksum: false, nblocks: 1, blocks: [blk(false, 0), NOBLK, NOBLK] };
pub(crate) const SK_RAW1: Skel = Skel { single: true, declared: 1, wd: 0, checksum: false, nblocks: 1, blocks: [blk(false, 1), NOBLK, NOBLK] };
pub(crate) const SK_RAW4_CK: Skel = Skel { single: true, declared: 4, wd: 0, checksum: true, nblocks: 1, blocks: [blk(false, 4), NOBLK, NOBLK] };
pub(crate) const SK_RLE1: Skel = Skel { single: true, declared: 1, wd: 0, checksum: false, nblocks: 1, blocks: [blk(true, 1), NOBLK, NOBLK] };
pub(crate) const SK_RLE3_CK: Skel = Skel { single: true, declared: 3, wd: 0, checksum: true, nblocks: 1, blocks: [blk(true, 3), NOBLK, NOBLK] };
pub(crate) const SK_RLE3_RAW2: Skel = Skel { single: true, declared: 5, wd: 0, checksum: false, nblocks: 2, blocks: [blk(true, 3), blk(false, 2), NOBLK] };
pub(crate) const SK_RLE3_RAW2_CK: Skel = Skel { single: true, declared: 5, wd: 0, checksum: true, nblocks: 2, blocks: [blk(true, 3), blk(false, 2), NOBLK] };
pub(crate) const SK_RAW2_RAW0: Skel = Skel { single: true, declared: 2, wd: 0, checksum: false, nblocks: 2, blocks: [blk(false, 2), blk(false, 0), NOBLK] };
pub(crate) const SK_RAW4_RAW3_RAW0_CK: Skel = Skel { single: true, declared: 7, wd: 0, checksum: true, nblocks: 3, blocks: [blk(false, 4), blk(false, 3), blk(false, 0)] };
// window descriptor 0 (1 KiB window), no content size in the header
pub(crate) const SK_WD_RLE3_RAW2: Skel = Skel { single: false, declared: 0, wd: 0, checksum: false, nblocks: 2, blocks: [blk(true, 3), blk(false, 2), NOBLK] };
// a *lying* single-segment size: window 2 is smaller than the 8 bytes of content, so draining while the frame is
// unfinished must retain exactly 2 bytes, and the ring (first allocation for 2 bytes) has to grow and wrap
pub(crate) const SK_LYING_RAW3_RLE3_RAW2_CK: Skel = Skel { single: true, declared: 2, wd: 0, checksum: true, nblocks: 3, blocks: [blk(false, 3), blk(true, 3), blk(false, 2)] };
pub(crate) const SK_LYING_RAW3_RLE3_RAW2: Skel = Skel { single: true, declared: 2, wd: 0, checksum: false, nblocks: 3, blocks: [blk(false, 3), blk(true, 3), blk(false, 2)] };

macro_rules! ok_or_fail {
    ($e:expr, $msg:literal) => {
        match $e { Ok(x) => x, Err(e) => { core::mem::forget(e); panic!($msg); } }
    };
}
pub(crate) use ok_or_fail;

/// asserts success without moving the error payload out of the Result (moving a FrameDecoderError - a deeply nested
/// union for CBMC - costs far more symbolic-execution time than everything else in a decode_blocks call)
#[inline(never)]
pub(crate) fn must_ok<T>(r: Result<T, FrameDecoderError>, what: &'static str) {
    let ok = r.is_ok();
    core::mem::forget(r);
    assert!(ok, "{}", what);
}
/// a decode call in a driver program: must succeed, and "Ok(true)" must mean the frame really is finished (all of it
/// consumed, checksum included).  A violation ends the path: continuing would feed the decoder a symbolic block header.
#[inline(never)]
pub(crate) fn decode_step(dec: &mut FrameDecoder, src: &mut ArrSrc, strat: BlockDecodingStrategy) {
    let r = dec.decode_blocks(src, strat);
    let fin = match &r { Ok(b) => Some(*b), Err(_) => None };
    core::mem::forget(r);
    match fin {
        None => { assert!(false, "decode failed on a valid frame"); nd::stop(); }
        Some(f) => {
            if f != dec.is_finished() {
                assert!(false, "decode_blocks reports the frame finished but is_finished() disagrees (part of the frame, e.g. its checksum, is still unread)");
                nd::stop();
            }
        }
    }
}

fn check_content(out: &[u8; MAXC], n: usize, b: &Built) {
    assert!(n == b.clen, "decoded length differs from the content length");
    if b.clen > 0 {
        let k: usize = nd::any();
        nd::assume(k < b.clen);
        assert!(out[k] == b.content[k], "decoded bytes differ from the content");
    }
}

/// C08 (only in builds with the hash feature, which the runner always pairs with the logging twox-hash shim):
/// the hasher saw exactly the `n` delivered bytes, in order, since the last reset, and the accessor reports the low
/// 32 bits of its finish value.
#[cfg(feature = "hash")]
fn check_hash(dec: &FrameDecoder, out: &[u8; MAXC], n: usize) {
    let hs = &dec.state.as_ref().unwrap().decoder_scratch.buffer.hash;
    assert!(n <= 8); // (len, acc) is exact up to 8 bytes
    let (wl, wa) = twox_hash::reference_state(&out[..n]);
    assert!(hs.seed == 0, "hash seed");
    assert!(hs.len == wl, "number of hashed bytes differs from the number of delivered bytes");
    assert!(hs.acc == wa, "hashed bytes differ from the delivered bytes (content or order)");
    let want = twox_hash::reference_finish(0, wl, wa) as u32;
    assert!(dec.get_calculated_checksum() == Some(want), "calculated checksum is not the low 32 bits of the hash of the delivered bytes");
}
#[cfg(not(feature = "hash"))]
fn check_hash(_dec: &FrameDecoder, _out: &[u8; MAXC], _n: usize) {}

fn check_finished(dec: &FrameDecoder, sk: &Skel, b: &Built, src: &ArrSrc) {
    assert!(dec.is_finished(), "frame not finished after its last block");
    assert!(dec.blocks_decoded() == sk.nblocks);
    assert!(dec.bytes_read_from_source() == b.flen as u64, "consumed count differs from the frame length");
    assert!(src.pos == b.flen, "source position differs from the frame length: bytes after the frame were consumed or frame bytes left behind");
    if sk.checksum { assert!(dec.get_checksum_from_data() == Some(b.trailer), "stored checksum misreported"); }
    else { assert!(dec.get_checksum_from_data().is_none()); }
}

/// C01/C10: complete frame (+2 foreign bytes behind it), decode everything at once, one read.
pub(crate) fn decode_complete(sk: &Skel, chunk: usize) {
    let b = build(sk);
    let mut src = src_of(&b, b.flen + 2, chunk);
    let mut dec = FrameDecoder::new();
    ok_or_fail!(dec.reset(&mut src), "valid frame header refused");
    assert!(dec.content_size() == if sk.single { sk.declared as u64 } else { 0 }, "content size differs from the header");
    assert!(!dec.is_finished() && dec.blocks_decoded() == 0);
    let fin = ok_or_fail!(dec.decode_blocks(&mut src, BlockDecodingStrategy::All), "valid frame refused");
    assert!(fin);
    check_finished(&dec, sk, &b, &src);
    assert!(dec.can_collect() == b.clen);
    let mut out = [0u8; MAXC];
    let n = ok_or_fail!(Read::read(&mut dec, &mut out[..]), "read failed");
    assert!(dec.can_collect() == 0);
    nd_cover!(true, "complete frame decoded");
    check_content(&out, n, &b);
    core::mem::forget(dec);
}

harness! { fn fd_complete_raw0() { decode_complete(&SK_RAW0, usize::MAX); } }
harness! { fn fd_complete_raw1() { decode_complete(&SK_RAW1, usize::MAX); } }
harness! { fn fd_complete_raw4_ck() { decode_complete(&SK_RAW4_CK, usize::MAX); } }
harness! { fn fd_complete_rle1() { decode_complete(&SK_RLE1, usize::MAX); } }
harness! { fn fd_complete_rle3_ck() { decode_complete(&SK_RLE3_CK, usize::MAX); } }
harness! { fn fd_complete_rle3_raw2() { decode_complete(&SK_RLE3_RAW2, usize::MAX); } }
harness! { fn fd_complete_rle3_raw2_ck_frag1() { decode_complete(&SK_RLE3_RAW2_CK, 1); } }
harness! { fn fd_complete_raw2_raw0() { decode_complete(&SK_RAW2_RAW0, usize::MAX); } }
harness! { fn fd_complete_raw4_raw3_raw0_ck_frag2() { decode_complete(&SK_RAW4_RAW3_RAW0_CK, 2); } }
harness! { fn fd_complete_wd_rle3_raw2() { decode_complete(&SK_WD_RLE3_RAW2, usize::MAX); } }
harness! { fn fd_complete_lying_ck() { decode_complete(&SK_LYING_RAW3_RLE3_RAW2_CK, usize::MAX); } }

// ------------------------------------------------------------------------------------------------ C10 truncation
/// Every strict prefix of a valid frame ends in an error, never in a finished state, and what was delivered before the
/// error is a prefix of the true content.  `cut` is the number of source bytes available; `one_by_one` selects the
/// schedule (one block per call with a read after each call, or everything at once).
pub(crate) fn decode_cut(sk: &Skel, cut: usize, one_by_one: bool) {
    let b = build(sk);
    assert!(cut <= b.flen);
    let mut src = src_of(&b, cut, usize::MAX);
    src.prune = true;
    let mut dec = FrameDecoder::new();
    let r0 = dec.reset(&mut src);
    let mut out = [0u8; MAXC];
    let mut n = 0usize;
    if cut < 6 {
        match r0 { Ok(()) => panic!("header accepted from a truncated source"), Err(e) => core::mem::forget(e) }
    } else {
        ok_or_fail!(r0, "valid header refused");
        let mut failed = false;
        if one_by_one {
            let mut k = 0;
            while k < sk.nblocks && !failed && !dec.is_finished() {
                let r = dec.decode_blocks(&mut src, BlockDecodingStrategy::UptoBlocks(1));
                failed = r.is_err();
                core::mem::forget(r);
                n += ok_or_fail!(Read::read(&mut dec, &mut out[n..]), "read failed");
                k += 1;
            }
        } else {
            let r = dec.decode_blocks(&mut src, BlockDecodingStrategy::All);
            failed = r.is_err();
            core::mem::forget(r);
            n += ok_or_fail!(Read::read(&mut dec, &mut out[n..]), "read failed");
        }
        if cut == b.flen {
            assert!(!failed, "complete frame refused");
            check_finished(&dec, sk, &b, &src);
            n += ok_or_fail!(Read::read(&mut dec, &mut out[n..]), "read failed");
            assert!(n == b.clen);
        } else {
            assert!(failed, "strict prefix of a frame decoded without an error");
            assert!(!dec.is_finished(), "strict prefix of a frame reported as finished");
            assert!(n <= b.clen);
        }
    }
    nd_cover!(true, "reached the end of the schedule");
    if n > 0 {
        let i: usize = nd::any();
        nd::assume(i < n);
        assert!(out[i] == b.content[i], "bytes delivered before the error are not a prefix of the content");
    }
    core::mem::forget(dec);
}

macro_rules! cut_harness { ($name:ident, $sk:expr, $cut:expr, $obo:expr) => { harness! { fn $name() { decode_cut(&$sk, $cut, $obo); } } }; }
// RLE(3)+raw(2)+checksum: header 6, block1 3+1 (..10), block2 3+2 (..15), trailer 4 (..19)
cut_harness!(fd_cut_rle3raw2ck_05_all, SK_RLE3_RAW2_CK, 5, false);
cut_harness!(fd_cut_rle3raw2ck_06_all, SK_RLE3_RAW2_CK, 6, false);
cut_harness!(fd_cut_rle3raw2ck_08_all, SK_RLE3_RAW2_CK, 8, false);
cut_harness!(fd_cut_rle3raw2ck_09_obo, SK_RLE3_RAW2_CK, 9, true);
cut_harness!(fd_cut_rle3raw2ck_10_obo, SK_RLE3_RAW2_CK, 10, true);
cut_harness!(fd_cut_rle3raw2ck_10_all, SK_RLE3_RAW2_CK, 10, false);
cut_harness!(fd_cut_rle3raw2ck_12_obo, SK_RLE3_RAW2_CK, 12, true);
cut_harness!(fd_cut_rle3raw2ck_13_all, SK_RLE3_RAW2_CK, 13, false);
cut_harness!(fd_cut_rle3raw2ck_14_obo, SK_RLE3_RAW2_CK, 14, true);
cut_harness!(fd_cut_rle3raw2ck_15_obo, SK_RLE3_RAW2_CK, 15, true);
cut_harness!(fd_cut_rle3raw2ck_15_all, SK_RLE3_RAW2_CK, 15, false);
cut_harness!(fd_cut_rle3raw2ck_17_obo, SK_RLE3_RAW2_CK, 17, true);
cut_harness!(fd_cut_rle3raw2ck_18_all, SK_RLE3_RAW2_CK, 18, false);
cut_harness!(fd_cut_rle3raw2ck_19_obo, SK_RLE3_RAW2_CK, 19, true);
// remaining cut positions (thorough)
cut_harness!(fd_cut_rle3raw2ck_00_all, SK_RLE3_RAW2_CK, 0, false);
cut_harness!(fd_cut_rle3raw2ck_03_all, SK_RLE3_RAW2_CK, 3, false);
cut_harness!(fd_cut_rle3raw2ck_04_all, SK_RLE3_RAW2_CK, 4, false);
cut_harness!(fd_cut_rle3raw2ck_07_obo, SK_RLE3_RAW2_CK, 7, true);
cut_harness!(fd_cut_rle3raw2ck_11_all, SK_RLE3_RAW2_CK, 11, false);
cut_harness!(fd_cut_rle3raw2ck_16_all, SK_RLE3_RAW2_CK, 16, false);
cut_harness!(fd_cut_rle3raw2ck_16_obo, SK_RLE3_RAW2_CK, 16, true);
cut_harness!(fd_cut_rle3raw2ck_18_obo, SK_RLE3_RAW2_CK, 18, true);
// raw(2)+empty last block, no checksum: header 6, block1 3+2 (..11), block2 3 (..14)
cut_harness!(fd_cut_raw2raw0_11_all, SK_RAW2_RAW0, 11, false);
cut_harness!(fd_cut_raw2raw0_13_obo, SK_RAW2_RAW0, 13, true);
cut_harness!(fd_cut_raw2raw0_14_obo, SK_RAW2_RAW0, 14, true);

// ------------------------------------------------------------------------------------------------ C06 driver programs
#[derive(Clone, Copy)]
pub(crate) enum Op {
    All, Blocks(usize), Bytes(usize),
    Collect, ReadN(usize),
    /// collect_to_writer into a sink that takes `accept` bytes, then answers one stop - Ok(0) (false) or WouldBlock (true) -
    /// and would then take `resume` more bytes within the same call
    Sink(usize, bool, usize),
}

struct Sink { buf: [u8; MAXC], n: usize, accept: usize, block: bool, resume: usize }
impl Write for Sink {
    fn write(&mut self, b: &[u8]) -> Result<usize, Error> {
        if self.accept == 0 && self.resume > 0 {
            self.accept = self.resume; self.resume = 0;
            if self.block { return Err(Error::from(crate::io::ErrorKind::WouldBlock)); }
            return Ok(0);
        }
        if self.accept == 0 {
            if self.block { return Err(Error::from(crate::io::ErrorKind::WouldBlock)); }
            return Ok(0);
        }
        let k = if b.len() < self.accept { b.len() } else { self.accept };
        let mut j = 0; while j < k { self.buf[self.n + j] = b[j]; j += 1; }
        self.n += k; self.accept -= k;
        Ok(k)
    }
    fn flush(&mut self) -> Result<(), Error> { Ok(()) }
}

/// Runs a concrete driver program on a skeleton frame, then drains everything; whatever the program, the concatenation
/// of all bytes handed out must be the content, in order, nothing lost or duplicated; consumed == frame length.
pub(crate) fn run_program(sk: &Skel, chunk: usize, prog: &[Op]) {
    let b = build(sk);
    let mut src = src_of(&b, b.flen + 2, chunk);
    let mut dec = FrameDecoder::new();
    must_ok(dec.reset(&mut src), "valid frame header refused");
    let mut out = [0u8; MAXC];
    let mut n = 0usize;
    let mut s = 0;
    while s < prog.len() {
        match prog[s] {
            Op::All => { if !dec.is_finished() { decode_step(&mut dec, &mut src, BlockDecodingStrategy::All); } }
            Op::Blocks(k) => { if !dec.is_finished() { decode_step(&mut dec, &mut src, BlockDecodingStrategy::UptoBlocks(k)); } }
            Op::Bytes(k) => { if !dec.is_finished() { decode_step(&mut dec, &mut src, BlockDecodingStrategy::UptoBytes(k)); } }
            Op::Collect => {
                if let Some(v) = dec.collect() {
                    let mut j = 0; while j < v.len() { out[n + j] = v[j]; j += 1; }
                    n += v.len();
                    core::mem::forget(v);
                }
            }
            Op::ReadN(k) => {
                let got = ok_or_fail!(Read::read(&mut dec, &mut out[n..n + k]), "read failed");
                assert!(got <= k);
                n += got;
            }
            Op::Sink(accept, block, resume) => {
                let mut sink = Sink { buf: [0u8; MAXC], n: 0, accept, block, resume };
                let before = dec.can_collect();
                match dec.collect_to_writer(&mut sink) {
                    Ok(w) => { assert!(w == sink.n, "collect_to_writer reported a count different from what the sink took"); }
                    Err(e) => { core::mem::forget(e); assert!(block); }
                }
                assert!(sink.n <= before);
                assert!(dec.can_collect() == before - sink.n, "bytes lost or duplicated when the sink stopped early");
                let mut j = 0; while j < sink.n { out[n + j] = sink.buf[j]; j += 1; }
                n += sink.n;
            }
        }
        s += 1;
    }
    // finish the frame and drain the rest
    if !dec.is_finished() { decode_step(&mut dec, &mut src, BlockDecodingStrategy::All); }
    check_finished(&dec, sk, &b, &src);
    n += ok_or_fail!(Read::read(&mut dec, &mut out[n..]), "read failed");
    assert!(dec.can_collect() == 0);
    nd_cover!(true, "program completed");
    check_hash(&dec, &out, n);
    check_content(&out, n, &b);
    core::mem::forget(dec);
}

macro_rules! prog_harness { ($name:ident, $sk:expr, $chunk:expr, [$($op:expr),*]) => { harness! { fn $name() { run_program(&$sk, $chunk, &[$($op),*]); } } }; }
use Op::{Blocks, Bytes, Collect, ReadN};
// skeleton A: lying window 2, raw(3) RLE(3) raw(2), checksum - retention and ring wrap-around are exercised
prog_harness!(fd_prog_a_blocks1_read_each, SK_LYING_RAW3_RLE3_RAW2_CK, usize::MAX, [Blocks(1), ReadN(8), Blocks(1), ReadN(8), Blocks(1), ReadN(8)]);
prog_harness!(fd_prog_a_blocks1_collect_each, SK_LYING_RAW3_RLE3_RAW2_CK, usize::MAX, [Blocks(1), Collect, Blocks(1), Collect, Blocks(1), Collect]);
prog_harness!(fd_prog_a_blocks2_read1_frag3, SK_LYING_RAW3_RLE3_RAW2_CK, 3, [Blocks(2), ReadN(1), ReadN(1), Blocks(1), ReadN(2)]);
prog_harness!(fd_prog_a_bytes1_sink_partial, SK_LYING_RAW3_RLE3_RAW2_CK, usize::MAX, [Bytes(1), Bytes(1), Op::Sink(1, false, 4), Op::Sink(8, false, 0), Bytes(1)]);
prog_harness!(fd_prog_a_bytes4_sink_wouldblock_retry, SK_LYING_RAW3_RLE3_RAW2_CK, usize::MAX, [Bytes(4), Op::Sink(2, true, 0), Op::Sink(0, true, 0), Op::Sink(8, false, 0), Op::All, Op::Sink(3, true, 0)]);
prog_harness!(fd_prog_a_all_sink_split, SK_LYING_RAW3_RLE3_RAW2_CK, 1, [Blocks(2), ReadN(3), Op::All, Op::Sink(1, false, 6), Op::Sink(1, true, 2), ReadN(1)]);
prog_harness!(fd_prog_a_bytes6_collect_read, SK_LYING_RAW3_RLE3_RAW2_CK, 2, [Bytes(6), Collect, ReadN(8), Blocks(1), Collect]);
prog_harness!(fd_prog_a_blocks1_sink0, SK_LYING_RAW3_RLE3_RAW2_CK, usize::MAX, [Blocks(1), Op::Sink(0, false, 0), Blocks(1), Op::Sink(8, false, 0), Op::Sink(8, true, 0)]);
// skeleton B: honest single segment 7, raw(4) raw(3) empty last, checksum
prog_harness!(fd_prog_b_blocks1_read_small, SK_RAW4_RAW3_RAW0_CK, usize::MAX, [Blocks(1), ReadN(3), Blocks(1), ReadN(3), Blocks(1), ReadN(1)]);
prog_harness!(fd_prog_b_bytes5_collect, SK_RAW4_RAW3_RAW0_CK, 4, [Bytes(5), Collect, Bytes(5), Collect]);
prog_harness!(fd_prog_b_all_sink_then_read, SK_RAW4_RAW3_RAW0_CK, usize::MAX, [Op::All, Op::Sink(3, true, 0), ReadN(2), Op::Sink(8, false, 0)]);
prog_harness!(fd_prog_b_blocks2_then_all, SK_RAW4_RAW3_RAW0_CK, 5, [Blocks(2), Collect, Op::All]);
// skeleton C: window descriptor, RLE(3) raw(2)
prog_harness!(fd_prog_c_blocks1_read_each, SK_WD_RLE3_RAW2, usize::MAX, [Blocks(1), ReadN(8), Blocks(1), ReadN(2)]);
// more programs on A without checksum (thorough)
prog_harness!(fd_prog_a2_bytes3_read2, SK_LYING_RAW3_RLE3_RAW2, usize::MAX, [Bytes(3), ReadN(2), Bytes(3), ReadN(2), Bytes(3), ReadN(2)]);
prog_harness!(fd_prog_a2_blocks3_sink_each, SK_LYING_RAW3_RLE3_RAW2, usize::MAX, [Blocks(3), Op::Sink(1, false, 0), Op::Sink(1, true, 0), Op::Sink(1, false, 0), Op::Sink(8, true, 0)]);
prog_harness!(fd_prog_a2_collect_before_decode, SK_LYING_RAW3_RLE3_RAW2, 1, [Collect, ReadN(4), Op::Sink(4, false, 0), Blocks(1), Blocks(1), Collect]);

// ------------------------------------------------------------------------------------------------ C07 reuse
/// History H on frame A (0: completed and drained / 1: completed and NOT drained / 2: abandoned after one block /
/// 3: truncated at `cut` bytes with the error ignored), then reset on frame B: every observable equals the
/// fresh-decoder values (which fd_complete_* establish to be the frame's own values).
pub(crate) fn reuse(a: &Skel, hist: u8, cut: usize, bsk: &Skel) {
    let fa = build(a);
    let mut dec = FrameDecoder::new();
    {
        let alen = if hist == 3 { cut } else { fa.flen };
        let mut src = src_of(&fa, alen, usize::MAX);
        src.prune = true;
        match dec.reset(&mut src) {
            Ok(()) => {
                match hist {
                    0 => {
                        ok_or_fail!(dec.decode_blocks(&mut src, BlockDecodingStrategy::All), "A refused");
                        let mut o = [0u8; MAXC];
                        ok_or_fail!(Read::read(&mut dec, &mut o[..]), "read");
                    }
                    1 => { ok_or_fail!(dec.decode_blocks(&mut src, BlockDecodingStrategy::All), "A refused"); }
                    2 => { ok_or_fail!(dec.decode_blocks(&mut src, BlockDecodingStrategy::UptoBlocks(1)), "A refused"); }
                    _ => { match dec.decode_blocks(&mut src, BlockDecodingStrategy::All) { Ok(_) => {}, Err(e) => core::mem::forget(e) } }
                }
            }
            Err(e) => core::mem::forget(e),
        }
    }
    let fb = build(bsk);
    let mut src = src_of(&fb, fb.flen + 2, usize::MAX);
    ok_or_fail!(dec.reset(&mut src), "valid frame header refused by a used decoder");
    assert!(dec.content_size() == if bsk.single { bsk.declared as u64 } else { 0 });
    assert!(!dec.is_finished() && dec.blocks_decoded() == 0 && dec.can_collect() == 0, "state of the earlier frame visible after reset");
    assert!(dec.get_checksum_from_data().is_none(), "checksum of the earlier frame visible after reset");
    assert!(dec.bytes_read_from_source() == 6);
    ok_or_fail!(dec.decode_blocks(&mut src, BlockDecodingStrategy::All), "valid frame refused by a used decoder");
    check_finished(&dec, bsk, &fb, &src);
    let mut out = [0u8; MAXC];
    let n = ok_or_fail!(Read::read(&mut dec, &mut out[..]), "read failed");
    nd_cover!(true, "second frame decoded");
    check_hash(&dec, &out, n);
    check_content(&out, n, &fb);
    core::mem::forget(dec);
}
harness! { fn fd_reuse_complete_drained() { reuse(&SK_RLE3_RAW2_CK, 0, 0, &SK_RAW4_CK); } }
harness! { fn fd_reuse_complete_undrained() { reuse(&SK_RLE3_RAW2_CK, 1, 0, &SK_RAW1); } }
harness! { fn fd_reuse_abandoned() { reuse(&SK_LYING_RAW3_RLE3_RAW2_CK, 2, 0, &SK_RLE3_CK); } }
harness! { fn fd_reuse_truncated_block() { reuse(&SK_RLE3_RAW2_CK, 3, 12, &SK_RLE3_RAW2); } }
harness! { fn fd_reuse_truncated_checksum() { reuse(&SK_RLE3_RAW2_CK, 3, 17, &SK_RAW2_RAW0); } }
harness! { fn fd_reuse_truncated_header() { reuse(&SK_RLE3_RAW2_CK, 3, 5, &SK_RAW4_CK); } }
harness! { fn fd_reuse_larger_window() { reuse(&SK_RAW1, 0, 0, &SK_WD_RLE3_RAW2); } }
harness! { fn fd_reuse_smaller_window() { reuse(&SK_WD_RLE3_RAW2, 1, 0, &SK_LYING_RAW3_RLE3_RAW2_CK); } }

// ------------------------------------------------------------------------------------------------ C11 window limit
fn rfc_window(wd: u8) -> u64 { let base = 1u64 << (10 + (wd >> 3) as u64); base + (base / 8) * ((wd & 7) as u64) }
const RFC_MAX_WINDOW: u64 = (1u64 << 41) + 7 * (1u64 << 38);

// arithmetic core, complete: check_window_size for all (window, max); set_max_window_size clamps
harness! { fn c11_check_window_size_all() {
    let w: u64 = nd::any(); let m: u64 = nd::any();
    match FrameDecoderState::check_window_size(w, m) {
        Ok(()) => assert!(w <= m, "window above the limit accepted"),
        Err(FrameDecoderError::WindowSizeTooBig { requested, max }) => { assert!(w > m, "window at or below the limit refused"); assert!(requested == w && max == m, "limits misreported"); }
        Err(e) => { core::mem::forget(e); assert!(false, "unexpected error kind"); }
    }
    let mut dec = FrameDecoder::new();
    assert!(dec.max_window_size() == 128 * 1024 * 1024, "default limit");
    let x: u64 = nd::any();
    dec.set_max_window_size(x);
    assert!(dec.max_window_size() == if x < RFC_MAX_WINDOW { x } else { RFC_MAX_WINDOW }, "limit not clamped to the format maximum");
    nd_cover!(w == m, "boundary");
    core::mem::forget(dec);
} }

/// six-byte header with window descriptor `wd`
fn window_header(wd: u8) -> ArrSrc {
    let mut f = [0u8; MAXF + 4];
    f[0] = 0x28; f[1] = 0xB5; f[2] = 0x2F; f[3] = 0xFD; f[4] = 0; f[5] = wd;
    ArrSrc { data: f, pos: 0, len: 6, chunk: usize::MAX, failed: false, prune: false }
}

fn check_limit_outcome(r: Result<(), FrameDecoderError>, win: u64, eff: u64) -> bool {
    match r {
        Ok(()) => { assert!(win <= eff, "frame above the limit accepted"); assert!(win <= RFC_MAX_WINDOW); true }
        Err(FrameDecoderError::WindowSizeTooBig { requested, max }) => {
            assert!(win > eff, "frame at or below the limit refused");
            assert!(requested == win && max == eff, "requested/effective limits misreported");
            false
        }
        Err(e) => { core::mem::forget(e); assert!(win > RFC_MAX_WINDOW, "legal window refused"); false }
    }
}

/// Ordering fact "refused before any window-sized allocation", decided on concrete (descriptor, limit) cases for the four
/// entry paths; the arithmetic itself is decided for ALL values by c11_check_window_size_all / window_size_all_descriptors.
/// PATH 0: first frame on a new decoder, 1: later frame on a used decoder, 2: StreamingDecoder::new_with_max_window_size,
/// 3: decode_all.  limit None = default limit.  Ring allocation is stubbed in ghost mode for the frame under test.
fn limit_case(path: u8, wd: u8, limit: Option<u64>) {
    nd::set_stub_arg(0, 17); nd::set_stub_arg(1, 0); nd::set_ghost(5, 0);
    let eff = match limit { None => 128 * 1024 * 1024, Some(l) => if l < RFC_MAX_WINDOW { l } else { RFC_MAX_WINDOW } };
    let win = rfc_window(wd);
    let mut dec = FrameDecoder::new();
    // the earlier frame on the reuse path has a 1 KiB window, so "new window <= old window" cases exist (a later frame
    // that fits the existing buffer must still be checked against the *current* limit)
    let fa = build(&SK_WD_RLE3_RAW2);
    if path == 1 {
        let mut s = src_of(&fa, fa.flen, usize::MAX);
        ok_or_fail!(dec.reset(&mut s), "A refused");
        ok_or_fail!(dec.decode_blocks(&mut s, BlockDecodingStrategy::All), "A refused");
    }
    nd::set_stub_arg(1, 1);
    if let Some(l) = limit { dec.set_max_window_size(l); }
    assert!(dec.max_window_size() == eff);
    let mut src = window_header(wd);
    let ok = match path {
        0 | 1 => check_limit_outcome(dec.reset(&mut src), win, eff),
        2 => {
            let r = match limit {
                Some(l) => crate::decoding::StreamingDecoder::new_with_max_window_size(src, l),
                None => crate::decoding::StreamingDecoder::new(src),
            };
            match r { Ok(sd) => { core::mem::forget(sd); check_limit_outcome(Ok(()), win, eff) } Err(e) => check_limit_outcome(Err(e), win, eff) }
        }
        _ => {
            let input: [u8; 6] = [0x28, 0xB5, 0x2F, 0xFD, 0, wd];
            let mut out = [0u8; 4];
            match dec.decode_all(&input[..], &mut out[..]) {
                Ok(_) => { assert!(false, "a frame without blocks cannot decode"); false }
                Err(FrameDecoderError::WindowSizeTooBig { requested, max }) => check_limit_outcome(Err(FrameDecoderError::WindowSizeTooBig { requested, max }), win, eff),
                // accepted by the gate, fails later because the input has no blocks
                Err(e) => { core::mem::forget(e); assert!(win <= eff, "frame above the limit not refused with WindowSizeTooBig"); true }
            }
        }
    };
    assert!(ok == (win <= eff));
    if !ok {
        assert!(nd::ghost(5) == 0, "window memory requested for a refused frame");
        if path == 1 {
            // the earlier frame's state is untouched
            assert!(dec.is_finished() && dec.blocks_decoded() == 2 && dec.bytes_read_from_source() == fa.flen as u64 && dec.can_collect() == fa.clen, "refused frame disturbed the decoder state");
        }
    } else if path == 1 {
        assert!(!dec.is_finished() && dec.blocks_decoded() == 0 && dec.bytes_read_from_source() == 6 && dec.can_collect() == 0);
        assert!(nd::ghost(5) >= 1 || win <= 16, "accepted frame did not reserve its window");
    }
    nd_cover!(true, "case completed");
    core::mem::forget(dec);
}
macro_rules! limit_harness { ($name:ident, $path:expr, $wd:expr, $limit:expr) => { harness! { fn $name() { limit_case($path, $wd, $limit); } } }; }
// 0x00: 1 KiB; 0x88: 128 MiB (= default limit); 0x89: 144 MiB; 0xFF: the format maximum
limit_harness!(c11_limit_case_first_1k_default, 0, 0x00, None);
limit_harness!(c11_limit_case_first_128m_default, 0, 0x88, None);
limit_harness!(c11_limit_case_first_144m_default, 0, 0x89, None);
limit_harness!(c11_limit_case_first_144m_raised, 0, 0x89, Some(u64::MAX));
limit_harness!(c11_limit_case_first_1k_lowered, 0, 0x00, Some(1023));
limit_harness!(c11_limit_case_first_ff_max, 0, 0xFF, Some(u64::MAX));
limit_harness!(c11_limit_case_reuse_1k_default, 1, 0x00, None);
limit_harness!(c11_limit_case_reuse_128m_default, 1, 0x88, None);
limit_harness!(c11_limit_case_reuse_144m_default, 1, 0x89, None);
limit_harness!(c11_limit_case_reuse_144m_raised, 1, 0x89, Some(u64::MAX));
limit_harness!(c11_limit_case_reuse_1k_lowered, 1, 0x00, Some(1023));
limit_harness!(c11_limit_case_reuse_1k_lowered_to_512, 1, 0x00, Some(512));
limit_harness!(c11_limit_case_reuse_ff_max, 1, 0xFF, Some(u64::MAX));
limit_harness!(c11_limit_case_stream_144m_default, 2, 0x89, None);
limit_harness!(c11_limit_case_stream_144m_raised, 2, 0x89, Some(1 << 28));
limit_harness!(c11_limit_case_stream_1k_lowered, 2, 0x00, Some(1023));
limit_harness!(c11_limit_case_all_144m_default, 3, 0x89, None);
limit_harness!(c11_limit_case_all_128m_default, 3, 0x88, None);
limit_harness!(c11_limit_case_all_1k_lowered, 3, 0x00, Some(1000));

// ------------------------------------------------------------------------------------------------ C06/C10 slice API
/// decode_from_to with the frame presented in chunks: chunk i makes bytes up to `ends[i]` available; unread bytes are
/// presented again (as the documentation asks).  Target capacity per call `tcap`.  Every call reports read <= what it
/// was given; in the end exactly the frame was consumed and exactly the content was written.
pub(crate) fn from_to(sk: &Skel, ends: &[usize], tcap: usize) {
    nd::set_stub_arg(0, 17);
    let b = build(sk);
    let mut dec = FrameDecoder::new();
    let mut out = [0u8; MAXC + 8];
    let mut pos = 0usize;
    let mut n = 0usize;
    let mut i = 0;
    while i < ends.len() {
        let end = ends[i];
        let src = &b.data[pos..end];
        let (r, w) = ok_or_fail!(dec.decode_from_to(src, &mut out[n..n + tcap]), "valid chunk refused");
        assert!(r <= src.len(), "decode_from_to reports more bytes read than it was given");
        assert!(w <= tcap);
        pos += r; n += w;
        i += 1;
    }
    // drain with an empty source
    let mut k = 0;
    while k < 3 {
        let (r, w) = ok_or_fail!(dec.decode_from_to(&b.data[pos..pos], &mut out[n..n + tcap]), "drain refused");
        assert!(r == 0, "bytes reported read from an empty source");
        n += w;
        k += 1;
    }
    assert!(pos == b.flen, "consumed count differs from the frame length");
    assert!(dec.is_finished(), "frame not finished although every byte was supplied");
    assert!(dec.bytes_read_from_source() == b.flen as u64);
    if sk.checksum { assert!(dec.get_checksum_from_data() == Some(b.trailer)); }
    nd_cover!(true, "all chunks consumed");
    assert!(n == b.clen, "written count differs from the content length");
    if b.clen > 0 {
        let j: usize = nd::any();
        nd::assume(j < b.clen);
        assert!(out[j] == b.content[j], "decoded bytes differ from the content");
    }
    core::mem::forget(dec);
}
// RLE(3)+raw(2)+checksum: header 6, block1 ..10, block2 ..15, trailer ..19
harness! { fn fd_from_to_whole() { from_to(&SK_RLE3_RAW2_CK, &[19], 8); } }
harness! { fn fd_from_to_checksum_alone() { from_to(&SK_RLE3_RAW2_CK, &[15, 19], 8); } }
harness! { fn fd_from_to_checksum_split_2_2() { from_to(&SK_RLE3_RAW2_CK, &[15, 17, 19], 8); } }
harness! { fn fd_from_to_block_by_block_small_target() { from_to(&SK_RLE3_RAW2_CK, &[10, 15, 19], 2); } }
harness! { fn fd_from_to_mid_block_chunks() { from_to(&SK_RLE3_RAW2_CK, &[8, 12, 16, 19], 8); } }
harness! { fn fd_from_to_nock_two_chunks() { from_to(&SK_RLE3_RAW2, &[11, 15], 3); } }

// minimal decode_from_to instances (two calls, no drain loop): the checksum arrives in its own chunk / split in two
pub(crate) const SK_RAW2_CK: Skel = Skel { single: true, declared: 2, wd: 0, checksum: true, nblocks: 1, blocks: [blk(false, 2), NOBLK, NOBLK] };
fn from_to_min(second_end: usize) {
    nd::set_stub_arg(0, 17);
    let b = build(&SK_RAW2_CK); // header 6, block 3+2 (..11), trailer (..15)
    let mut dec = FrameDecoder::new();
    let mut out = [0u8; 8];
    let (r1, w1) = ok_or_fail!(dec.decode_from_to(&b.data[..11], &mut out[..]), "first chunk refused");
    assert!(r1 == 11 && w1 == 2, "first chunk: read/written counts");
    assert!(dec.bytes_read_from_source() == 11);
    let src2 = &b.data[11..second_end];
    let (r2, w2) = ok_or_fail!(dec.decode_from_to(src2, &mut out[w1..]), "second chunk refused");
    assert!(r2 <= src2.len(), "decode_from_to reports more bytes read than it was given");
    assert!(w2 == 0);
    assert!(dec.bytes_read_from_source() == 11 + r2 as u64, "bytes_read_from_source disagrees with the counts decode_from_to returned");
    if second_end == 15 {
        assert!(r2 == 4 && dec.is_finished() && dec.get_checksum_from_data() == Some(b.trailer), "checksum chunk not consumed");
    } else {
        assert!(r2 == 0 && !dec.is_finished(), "incomplete checksum consumed");
    }
    nd_cover!(true, "both calls done");
    assert!(out[0] == b.content[0] && out[1] == b.content[1]);
    core::mem::forget(dec);
}
harness! { fn fd_from_to_min_checksum_alone() { from_to_min(15); } }
harness! { fn fd_from_to_min_checksum_partial() { from_to_min(13); } }

// C06/C10: one decode_from_to step from the state "last block decoded, checksum still outstanding" (constructed
// directly), for every source length 0..=6 and content: fewer than 4 bytes -> nothing consumed and nothing claimed;
// 4 or more -> exactly 4 consumed, counter and stored checksum updated.  The reported count never exceeds the source.
harness! { fn fd_from_to_checksum_step() {
    let start: u64 = nd::any();
    nd::assume(start <= 1 << 40);
    let mut dec = FrameDecoder::new();
    dec.state = Some(FrameDecoderState {
        frame_header: crate::decoding::frame::verif_kani::mk_header(0x24, 0, 2), // single segment, checksum flag
        decoder_scratch: DecoderScratch::new(2),
        frame_finished: true,
        block_counter: 1,
        bytes_read_counter: start,
        check_sum: None,
        using_dict: None,
    });
    assert!(!dec.is_finished());
    let bytes: [u8; 6] = nd::any();
    let k: usize = nd::any();
    nd::assume(k <= 6);
    let mut out = [0u8; 2];
    let (r, w) = ok_or_fail!(dec.decode_from_to(&bytes[..k], &mut out[..]), "checksum step refused");
    assert!(r <= k, "decode_from_to reports more bytes read than it was given");
    assert!(dec.bytes_read_from_source() == start + r as u64, "bytes_read_from_source disagrees with the count decode_from_to returned");
    if k >= 4 {
        assert!(r == 4 && w == 0 && dec.is_finished(), "available checksum not consumed");
        assert!(dec.get_checksum_from_data() == Some(u32::from_le_bytes([bytes[0], bytes[1], bytes[2], bytes[3]])), "stored checksum misread");
    } else {
        assert!(r == 0 && !dec.is_finished() && dec.get_checksum_from_data().is_none(), "incomplete checksum consumed");
    }
    nd_cover!(k == 4, "exactly the checksum");
    nd_cover!(k == 3, "one byte short");
    core::mem::forget(dec);
} }

// ------------------------------------------------------------------------------------------------ C08 (hash feature + shim)
// drained data wraps in the ring (window 2 < content 8): both ring segments are non-empty at drain time
#[cfg(feature = "hash")]
prog_harness!(fd_hash_prog_blocks1_read_each, SK_LYING_RAW3_RLE3_RAW2_CK, usize::MAX, [Blocks(1), ReadN(8), Blocks(1), ReadN(8), Blocks(1), ReadN(8)]);
#[cfg(feature = "hash")]
prog_harness!(fd_hash_prog_collect_midframe_then_drain, SK_LYING_RAW3_RLE3_RAW2_CK, usize::MAX, [Blocks(2), Collect, Op::All, Collect]);
#[cfg(feature = "hash")]
prog_harness!(fd_hash_prog_sink_partial_resume, SK_LYING_RAW3_RLE3_RAW2_CK, usize::MAX, [Blocks(2), ReadN(3), Op::All, Op::Sink(1, false, 6), Op::Sink(1, true, 2), ReadN(1)]);
#[cfg(feature = "hash")]
prog_harness!(fd_hash_prog_all_collect, SK_RAW4_RAW3_RAW0_CK, usize::MAX, [Op::All, Collect]);
#[cfg(feature = "hash")]
prog_harness!(fd_hash_prog_bytes_read_small, SK_RAW4_RAW3_RAW0_CK, 2, [Bytes(3), ReadN(2), Bytes(3), ReadN(1), Op::All, ReadN(3)]);
#[cfg(feature = "hash")]
harness! { fn fd_hash_reuse_undrained_then_second_frame() { reuse(&SK_RLE3_RAW2_CK, 1, 0, &SK_RAW4_CK); } }
#[cfg(feature = "hash")]
harness! { fn fd_hash_reuse_drained_then_second_frame() { reuse(&SK_RLE3_RAW2_CK, 0, 0, &SK_RLE3_RAW2); } }

// C08: the accessor reports the low 32 bits of the hasher's finish value, for every hasher state (state injected)
#[cfg(feature = "hash")]
harness! { fn fd_hash_accessor_low32() {
    let mut dec = FrameDecoder::new();
    assert!(dec.get_calculated_checksum().is_none());
    let mut sc = DecoderScratch::new(2);
    let acc: u64 = nd::any(); let len: usize = nd::any();
    sc.buffer.hash.acc = acc; sc.buffer.hash.len = len;
    dec.state = Some(FrameDecoderState {
        frame_header: crate::decoding::frame::verif_kani::mk_header(0x24, 0, 2),
        decoder_scratch: sc, frame_finished: true, block_counter: 1, bytes_read_counter: 15, check_sum: Some(nd::any()), using_dict: None,
    });
    assert!(dec.get_calculated_checksum() == Some(twox_hash::reference_finish(0, len, acc) as u32), "calculated checksum is not the low 32 bits of the hash");
    nd_cover!(true, "reached");
    core::mem::forget(dec);
} }
