use super::*;
use crate::verif_nd as nd;
use crate::verif_nd::{harness, nd_cover};

// C14/C01/C03: every 3-byte block header (all 2^24) is parsed to the RFC 8878 3.1.1.2 meaning,
// reserved type and sizes above 128 KiB are refused, never a panic.
harness! { fn block_header_all_2p24() {
    let b: [u8; 3] = nd::any();
    let mut d = new();
    let r = d.read_block_header(&b[..]);
    let v = (b[0] as u32) | (b[1] as u32) << 8 | (b[2] as u32) << 16;
    let ty = (v >> 1) & 3;
    let size = v >> 3;
    match r {
        Ok((h, n)) => {
            assert!(n == 3);
            assert!(ty != 3 && size <= 128 * 1024, "forbidden header accepted");
            assert!(h.last_block == (v & 1 == 1));
            match h.block_type {
                BlockType::Raw => { assert!(ty == 0 && h.content_size == size && h.decompressed_size == size); }
                BlockType::RLE => { assert!(ty == 1 && h.content_size == 1 && h.decompressed_size == size); }
                BlockType::Compressed => { assert!(ty == 2 && h.content_size == size); }
                BlockType::Reserved => { assert!(false, "reserved block type accepted"); }
            }
            nd_cover!(size == 128 * 1024, "largest legal block accepted");
        }
        Err(e) => {
            assert!(ty == 3 || size > 128 * 1024, "legal header refused");
            nd_cover!(ty == 3, "reserved refused");
            nd_cover!(size == 128 * 1024 + 1, "first illegal size refused");
            core::mem::forget(e);
        }
    }
} }

// truncated header source: error, no panic
harness! { fn block_header_short_source() {
    let b: [u8; 3] = nd::any();
    let len: usize = nd::any();
    nd::assume(len < 3);
    let mut d = new();
    let mut src = &b[..len];
    match d.read_block_header(&mut src) {
        Ok(_) => assert!(false, "header read from fewer than 3 bytes"),
        Err(e) => core::mem::forget(e),
    }
    nd_cover!(len == 2, "two bytes");
} }

// ------------------------------------------------------------------------------------------------ C05
/// S9 stub body: the guard that stands in for decode_literals
pub(crate) fn guard_decode_literals(section: &LiteralsSection) -> Result<u32, crate::decoding::errors::DecompressLiteralsError> {
    nd::set_ghost(5, 1);
    assert!(section.regenerated_size <= MAX_BLOCK_SIZE, "a literals section regenerating more than 128 KiB reaches the literal decoder");
    nd_cover!(section.regenerated_size == MAX_BLOCK_SIZE, "largest legal literals section reaches the literal decoder");
    nd_cover!(section.compressed_size.is_some(), "a compressed literals section reaches the literal decoder");
    nd::stop()
}

// C05/C03: whatever the 8 bytes of a compressed block's content are, the literal decoder is never asked to regenerate
// more than one maximum block (all four literal types, all size formats incl. the 20-bit raw/RLE and 18-bit forms).
harness! { fn c05_literals_regenerated_size_capped() {
    nd::stubs(nd::S9_DECODE_LITERALS_GUARD);
    nd::set_ghost(5, 0);
    let content: [u8; 8] = nd::any();
    let mut ws = DecoderScratch::new(1024);
    let mut d = new();
    let hdr = BlockHeader { last_block: true, block_type: BlockType::Compressed, decompressed_size: 0, content_size: 8 };
    let r = d.decompress_block(&hdr, &mut ws, &content[..]);
    nd_cover!(nd::ghost(5) == 0, "some header is rejected before the literal decoder");
    match r { Ok(()) => {}, Err(e) => core::mem::forget(e) }
    core::mem::forget(ws);
} }

// ------------------------------------------------------------------------------------------------ C01: compressed blocks
// The glue inside decompress_block, through the REAL code without stubs, on compressed blocks whose structure is concrete
// and whose data is symbolic: literals header -> literal decoder (raw / RLE) -> sequences header -> RLE-mode sequence
// decoding -> sequence execution -> window copy.  Entropy tables are not involved (RLE modes), so no table construction.
use crate::decoding::frame_decoder::verif_kani::{ArrSrc, MAXF};

fn run_block(content: &[u8], clen: usize, prior: &[u8], sc: &mut DecoderScratch) -> Result<u64, DecodeBlockContentError> {
    let mut data = [0u8; MAXF + 4];
    let mut k = 0; while k < clen { data[k] = content[k]; k += 1; }
    let mut src = ArrSrc { data, pos: 0, len: clen, chunk: usize::MAX, failed: false, prune: false };
    sc.buffer.push(prior);
    let mut d = new();
    d.internal_state = DecoderState::ReadyToDecodeNextBody;
    let hdr = BlockHeader { last_block: true, block_type: BlockType::Compressed, decompressed_size: 0, content_size: clen as u32 };
    d.decode_block_content(&hdr, sc, &mut src)
}

fn drain_all(sc: &mut DecoderScratch, out: &mut [u8; 24]) -> usize {
    match sc.buffer.read_all(&mut out[..]) { Ok(n) => n, Err(e) => { core::mem::forget(e); panic!("read_all failed"); } }
}

// literals only, raw: [ (3<<3)|0 , a, b, c, 0x00 ]
harness! { fn blk_literals_only_raw() {
    let a: u8 = nd::any(); let b: u8 = nd::any(); let c: u8 = nd::any();
    let content = [(3u8 << 3) | 0, a, b, c, 0x00];
    let mut sc = DecoderScratch::new(1024);
    let r = run_block(&content, 5, &[], &mut sc);
    match r { Ok(n) => assert!(n == 5, "bytes consumed by the block"), Err(e) => { core::mem::forget(e); panic!("valid literals-only block refused"); } }
    let mut out = [0u8; 24];
    let n = drain_all(&mut sc, &mut out);
    assert!(n == 3 && out[0] == a && out[1] == b && out[2] == c, "literals-only block decoded wrongly");
    nd_cover!(true, "decoded");
    core::mem::forget(sc);
} }

// literals only, RLE with the 12-bit size format: type 1, size_format 1, regenerated size 5: byte0 = 1 | (1<<2) | ((5&0xF)<<4), byte1 = 5>>4
harness! { fn blk_literals_only_rle() {
    let v: u8 = nd::any();
    let content = [1u8 | (1 << 2) | ((5 & 0xF) << 4), 0, v, 0x00];
    let mut sc = DecoderScratch::new(1024);
    let r = run_block(&content, 4, &[], &mut sc);
    match r { Ok(n) => assert!(n == 4), Err(e) => { core::mem::forget(e); panic!("valid RLE-literals block refused"); } }
    let mut out = [0u8; 24];
    let n = drain_all(&mut sc, &mut out);
    assert!(n == 5, "RLE literals count");
    let i: usize = nd::any(); nd::assume(i < 5);
    assert!(out[i] == v);
    nd_cover!(true, "decoded");
    core::mem::forget(sc);
} }

// one sequence, all three tables in RLE mode: prior output [p,q]; literals [a,b,c]; sequence: literal length code LLC
// (value = code for codes < 16), match length code 1 (length 4), offset code 2 with two symbolic extra bits x:
// offset value 4+x -> offset 1..=4 (new offset, history updated); then the remaining literals.
fn one_sequence<const LLC: u8, const X: u8>() {
    let p: u8 = nd::any(); let q: u8 = nd::any();
    let a: u8 = nd::any(); let b: u8 = nd::any(); let c: u8 = nd::any();
    // the two offset extra bits are case-split (a symbolic offset makes the real chunked window copy symbolic: 10 GB)
    let x: u8 = X;
    // literals: raw, 3 bytes | sequences: count 1, modes ll=RLE of=RLE ml=RLE, rle bytes in the order ll, of, ml |
    // bit stream: one byte, padding marker above the two offset extra bits
    let content = [(3u8 << 3) | 0, a, b, c, 0x01, (1 << 6) | (1 << 4) | (1 << 2), LLC, 2, 1, 0b100 | x];
    let mut sc = DecoderScratch::new(1024);
    let r = run_block(&content, 10, &[p, q], &mut sc);
    let ll = LLC as usize; // codes below 16 are the length itself
    let off = (1 + x) as usize; // (4 + x) - 3
    // LZ77 model
    let mut m = [0u8; 24];
    m[0] = p; m[1] = q;
    let lits = [a, b, c];
    let mut n = 2;
    let mut k = 0; while k < ll { m[n] = lits[k]; n += 1; k += 1; }
    let reach_ok = off <= n;
    if reach_ok { let mut k = 0; while k < 4 { m[n] = m[n - off]; n += 1; k += 1; } }
    let mut k = ll; while k < 3 { m[n] = lits[k]; n += 1; k += 1; }
    match r {
        Ok(used) => {
            assert!(used == 10, "bytes consumed by the block");
            assert!(reach_ok, "offset beyond the data accepted");
            let mut out = [0u8; 24];
            let got = drain_all(&mut sc, &mut out);
            assert!(got == 2 + 3 + 4, "regenerated size");
            let i: usize = nd::any(); nd::assume(i < 9);
            assert!(out[i] == m[i], "one-sequence block differs from the LZ77 model");
            assert!(sc.offset_hist[0] == off as u32 && sc.offset_hist[1] == 1 && sc.offset_hist[2] == 4, "repeat offset history after a new offset");
        }
        Err(e) => { core::mem::forget(e); assert!(!reach_ok, "valid one-sequence block refused"); }
    }
    nd_cover!(true, "block processed");
    core::mem::forget(sc);
}
harness! { fn blk_one_sequence_ll2_off1() { one_sequence::<2, 0>(); } }
harness! { fn blk_one_sequence_ll2_off4() { one_sequence::<2, 3>(); } }
harness! { fn blk_one_sequence_ll0_off2() { one_sequence::<0, 1>(); } }
harness! { fn blk_one_sequence_ll3_off3() { one_sequence::<3, 2>(); } }
harness! { fn blk_one_sequence_ll0_off3_unreachable() { one_sequence::<0, 2>(); } }

// two sequences, RLE modes, offset code 1 (one extra bit each: offset values 2 or 3 = repeat offsets), literal length 1,
// match length 3; prior output 4 bytes; literals [a,b,c].  Exercises the repeat-offset history across sequences
// through the real sequence decoder and executor; the model uses the RFC transcription of the offset rules.
fn two_sequences<const S1: u8, const S2: u8>() {
    let prior: [u8; 4] = nd::any();
    let a: u8 = nd::any(); let b: u8 = nd::any(); let c: u8 = nd::any();
    let content = [(3u8 << 3) | 0, a, b, c, 0x02, (1 << 6) | (1 << 4) | (1 << 2), 1, 1, 0, 0b100 | (S1 << 1) | S2];
    let mut sc = DecoderScratch::new(1024);
    let r = run_block(&content, 10, &prior, &mut sc);
    let mut m = [0u8; 24];
    let mut n = 4;
    let mut k = 0; while k < 4 { m[k] = prior[k]; k += 1; }
    let lits = [a, b, c];
    let mut hist = [1u32, 4, 8];
    let mut ok = true;
    let mut sidx = 0;
    while sidx < 2 {
        let ofv = 2 + if sidx == 0 { S1 } else { S2 } as u32;
        m[n] = lits[sidx]; n += 1;
        let (off, nh) = crate::decoding::sequence_execution::verif_kani::spec(ofv, 1, hist);
        hist = nh;
        if off == 0 || off as usize > n { ok = false; break; }
        let mut j = 0; while j < 3 { m[n] = m[n - off as usize]; n += 1; j += 1; }
        sidx += 1;
    }
    if ok { m[n] = lits[2]; n += 1; }
    match r {
        Ok(used) => {
            assert!(used == 10);
            assert!(ok, "unreachable repeat offset accepted");
            let mut out = [0u8; 24];
            let got = drain_all(&mut sc, &mut out);
            assert!(got == n, "regenerated size");
            let i: usize = nd::any(); nd::assume(i < n);
            assert!(out[i] == m[i], "two-sequence block differs from the LZ77 model with RFC repeat-offset rules");
            assert!(sc.offset_hist[0] == hist[0] && sc.offset_hist[1] == hist[1] && sc.offset_hist[2] == hist[2], "repeat offset history differs from the RFC rules");
        }
        Err(e) => { core::mem::forget(e); assert!(!ok, "valid two-sequence block refused"); }
    }
    nd_cover!(true, "block processed");
    core::mem::forget(sc);
}
harness! { fn blk_two_sequences_rep2_rep2() { two_sequences::<0, 0>(); } }
harness! { fn blk_two_sequences_rep2_rep3() { two_sequences::<0, 1>(); } }
harness! { fn blk_two_sequences_rep3_unreachable() { two_sequences::<1, 0>(); } }

// ------------------------------------------------------------------------------------------------ C10/C03: truncated block bodies
// decode_block_content on a raw / RLE block whose body is cut after `avail` bytes (every avail below the body size):
// always an error, and nothing is appended to the window (no invented bytes).
fn truncated_body<const RLE: bool>() {
    let body: [u8; 3] = nd::any();
    let avail: usize = nd::any();
    let need = if RLE { 1 } else { 3 };
    nd::assume(avail < need);
    let mut data = [0u8; MAXF + 4];
    data[0] = body[0]; data[1] = body[1]; data[2] = body[2];
    let mut src = ArrSrc { data, pos: 0, len: avail, chunk: usize::MAX, failed: false, prune: false };
    let prior: [u8; 2] = nd::any();
    let mut sc = DecoderScratch::new(16);
    sc.buffer.push(&prior);
    let mut d = new();
    d.internal_state = DecoderState::ReadyToDecodeNextBody;
    let hdr = BlockHeader { last_block: true, block_type: if RLE { BlockType::RLE } else { BlockType::Raw }, decompressed_size: 3, content_size: if RLE { 1 } else { 3 } };
    let r = d.decode_block_content(&hdr, &mut sc, &mut src);
    let failed = r.is_err();
    core::mem::forget(r);
    assert!(failed, "block with a truncated body decoded without an error");
    assert!(sc.buffer.len() == 2, "bytes were appended to the window although the block body was truncated");
    nd_cover!(avail == need - 1, "one byte short");
    core::mem::forget(sc);
}
harness! { fn blk_truncated_rle_body() { truncated_body::<true>(); } }
harness! { fn blk_truncated_raw_body() { truncated_body::<false>(); } }

// two sequences, all RLE, NO extra bits anywhere (literal length code 1, match length code 0, offset code 0 = repeat
// offset 1): the whole bit stream is the padding marker 0x01 and is exhausted before the second sequence
harness! { fn blk_two_sequences_zero_bits() {
    let prior: [u8; 2] = nd::any();
    let a: u8 = nd::any(); let b: u8 = nd::any(); let c: u8 = nd::any();
    let content = [(3u8 << 3) | 0, a, b, c, 0x02, (1 << 6) | (1 << 4) | (1 << 2), 1, 0, 0, 0x01];
    let mut sc = DecoderScratch::new(1024);
    let r = run_block(&content, 10, &prior, &mut sc);
    let ok = r.is_ok(); core::mem::forget(r);
    assert!(ok, "valid block whose sequences need no bits refused");
    // model: [p q] a (copy 3 from offset 1) b (copy 3 from offset 1) c
    let want = [prior[0], prior[1], a, a, a, a, b, b, b, b, c];
    let mut out = [0u8; 24];
    let got = drain_all(&mut sc, &mut out);
    assert!(got == 11, "regenerated size");
    let i: usize = nd::any(); nd::assume(i < 11);
    assert!(out[i] == want[i], "zero-bit two-sequence block differs from the LZ77 model");
    nd_cover!(true, "decoded");
    core::mem::forget(sc);
} }

// table modes across blocks: block 1 sets all three tables by RLE, block 2 says Repeat for all three: the RLE symbols of
// block 1 are what "the previous table" means
harness! { fn blk_rle_then_repeat_mode() {
    let a: u8 = nd::any(); let b: u8 = nd::any(); let c: u8 = nd::any(); let d: u8 = nd::any();
    let mut sc = DecoderScratch::new(1024);
    // block 1: literals [a,b], one sequence ll 1 (code 1), ml 3 (code 0), offset code 0 (repeat offset 1), bit stream 0x01
    let c1 = [(2u8 << 3) | 0, a, b, 0x01, (1 << 6) | (1 << 4) | (1 << 2), 1, 0, 0, 0x01];
    let r1 = run_block(&c1, 9, &[], &mut sc);
    let ok1 = r1.is_ok(); core::mem::forget(r1);
    assert!(ok1, "first block refused");
    // block 2: literals [c,d], one sequence, modes Repeat/Repeat/Repeat (0xFC), no table bytes
    let c2 = [(2u8 << 3) | 0, c, d, 0x01, 0xFC, 0x01];
    let r2 = run_block(&c2, 6, &[], &mut sc);
    let ok2 = r2.is_ok(); core::mem::forget(r2);
    assert!(ok2, "block reusing RLE tables in Repeat mode refused");
    let want = [a, a, a, a, b, c, c, c, c, d];
    let mut out = [0u8; 24];
    let got = drain_all(&mut sc, &mut out);
    assert!(got == 10, "regenerated size");
    let i: usize = nd::any(); nd::assume(i < 10);
    assert!(out[i] == want[i], "Repeat-mode block after an RLE-mode block decoded wrongly");
    nd_cover!(true, "decoded");
    core::mem::forget(sc);
} }
