use super::*;
use crate::verif_nd as nd;
use crate::verif_nd::{harness, nd_cover};

// C14/C01/C03: every 3-byte block header (all 2^24) is parsed to the RFC 8878 3.1.1.2 meaning,
// reserved type and sizes above 128 KiB are refused, never a panic.
harness! { fn block_header_all_2p24() {
    let b: [u8; 3] = nd::any();
    let mut d = new();
    let r = d.read_block_header(&b[..]);
    let v = (b[0] as u32) | (b[1] as u32) << 8 | (b[2] as u32) << 16;
    let ty = (v >> 1) & 3;
    let size = v >> 3;
    match r {
        Ok((h, n)) => {
            assert!(n == 3);
            assert!(ty != 3 && size <= 128 * 1024, "forbidden header accepted");
            assert!(h.last_block == (v & 1 == 1));
            match h.block_type {
                BlockType::Raw => { assert!(ty == 0 && h.content_size == size && h.decompressed_size == size); }
                BlockType::RLE => { assert!(ty == 1 && h.content_size == 1 && h.decompressed_size == size); }
                BlockType::Compressed => { assert!(ty == 2 && h.content_size == size); }
                BlockType::Reserved => { assert!(false, "reserved block type accepted"); }
            }
            nd_cover!(size == 128 * 1024, "largest legal block accepted");
        }
        Err(e) => {
            assert!(ty == 3 || size > 128 * 1024, "legal header refused");
            nd_cover!(ty == 3, "reserved refused");
            nd_cover!(size == 128 * 1024 + 1, "first illegal size refused");
            core::mem::forget(e);
        }
    }
} }

// truncated header source: error, no panic
harness! { fn block_header_short_source() {
    let b: [u8; 3] = nd::any();
    let len: usize = nd::any();
    nd::assume(len < 3);
    let mut d = new();
    let mut src = &b[..len];
    match d.read_block_header(&mut src) {
        Ok(_) => assert!(false, "header read from fewer than 3 bytes"),
        Err(e) => core::mem::forget(e),
    }
    nd_cover!(len == 2, "two bytes");
} }

// ------------------------------------------------------------------------------------------------ C05
/// S9 stub body: the guard that stands in for decode_literals
pub(crate) fn guard_decode_literals(section: &LiteralsSection) -> Result<u32, crate::decoding::errors::DecompressLiteralsError> {
    nd::set_ghost(5, 1);
    assert!(section.regenerated_size <= MAX_BLOCK_SIZE, "a literals section regenerating more than 128 KiB reaches the literal decoder");
    nd_cover!(section.regenerated_size == MAX_BLOCK_SIZE, "largest legal literals section reaches the literal decoder");
    nd_cover!(section.compressed_size.is_some(), "a compressed literals section reaches the literal decoder");
    nd::stop()
}

// C05/C03: whatever the 8 bytes of a compressed block's content are, the literal decoder is never asked to regenerate
// more than one maximum block (all four literal types, all size formats incl. the 20-bit raw/RLE and 18-bit forms).
harness! { fn c05_literals_regenerated_size_capped() {
    nd::stubs(nd::S9_DECODE_LITERALS_GUARD);
    nd::set_ghost(5, 0);
    let content: [u8; 8] = nd::any();
    let mut ws = DecoderScratch::new(1024);
    let mut d = new();
    let hdr = BlockHeader { last_block: true, block_type: BlockType::Compressed, decompressed_size: 0, content_size: 8 };
    let r = d.decompress_block(&hdr, &mut ws, &content[..]);
    nd_cover!(nd::ghost(5) == 0, "some header is rejected before the literal decoder");
    match r { Ok(()) => {}, Err(e) => core::mem::forget(e) }
    core::mem::forget(ws);
} }
