use super::*;
use crate::verif_nd as nd;
use crate::verif_nd::{harness, nd_cover};
use crate::decoding::decode_buffer::verif_kani as dbk;
use crate::fse::verif_kani as fsek;
use crate::huff0::verif_kani as hufk;

fn dirty(s: &mut DecoderScratch) {
    s.offset_hist = [nd::any(), nd::any(), nd::any()];
    s.fse.ll_rle = if nd::any() { Some(nd::any()) } else { None };
    s.fse.ml_rle = if nd::any() { Some(nd::any()) } else { None };
    s.fse.of_rle = if nd::any() { Some(nd::any()) } else { None };
    fsek::dirty_table(&mut s.fse.literal_lengths);
    fsek::dirty_table(&mut s.fse.match_lengths);
    fsek::dirty_table(&mut s.fse.offsets);
    hufk::dirty_table(&mut s.huf.table);
    s.literals_buffer.push(nd::any());
    s.block_content_buffer.push(nd::any());
    s.sequences.push(Sequence { ll: nd::any(), ml: nd::any(), of: nd::any() });
    s.buffer.dict_content.push(nd::any());
    s.buffer.window_size = nd::any();
    let b: [u8; 3] = nd::any();
    s.buffer.push(&b);
    let toc: u64 = nd::any();
    nd::assume(toc < 1 << 62);
    dbk::set_total_output_counter(&mut s.buffer, toc);
}

fn assert_fresh(s: &DecoderScratch, w: usize) {
    assert!(s.offset_hist[0] == 1 && s.offset_hist[1] == 4 && s.offset_hist[2] == 8, "repeat offsets survive reset");
    assert!(s.fse.ll_rle.is_none() && s.fse.ml_rle.is_none() && s.fse.of_rle.is_none(), "an RLE symbol survives reset");
    assert!(fsek::table_is_fresh(&s.fse.literal_lengths, 35), "literal length table survives reset");
    assert!(fsek::table_is_fresh(&s.fse.match_lengths, 52), "match length table survives reset");
    assert!(fsek::table_is_fresh(&s.fse.offsets, 31), "offset table survives reset");
    assert!(hufk::table_is_fresh(&s.huf.table), "Huffman table survives reset");
    assert!(s.literals_buffer.is_empty() && s.block_content_buffer.is_empty() && s.sequences.is_empty(), "a block buffer survives reset");
    assert!(s.buffer.dict_content.is_empty(), "dictionary content survives reset");
    assert!(s.buffer.window_size == w && s.buffer.len() == 0, "window bytes survive reset");
    assert!(dbk::total_output_counter(&s.buffer) == 0, "output counter survives reset");
}

// C07: field-level reset completeness - every field holds an arbitrary leftover, after reset(w) every field equals new(w)
harness! { fn scratch_reset_equals_new() {
    nd::set_stub_arg(0, 17);
    let mut s = DecoderScratch::new(8);
    dirty(&mut s);
    let w: usize = nd::any();
    nd::assume(w <= 16);
    s.reset(w);
    assert_fresh(&s, w);
    // and new() itself is what assert_fresh describes
    let f = DecoderScratch::new(w);
    assert_fresh(&f, w);
    nd_cover!(w == 16, "largest window of the bound");
    core::mem::forget(s); core::mem::forget(f);
} }

// C07/C09: a dictionary installed for one frame is gone after reset; init_from_dict copies every decoding-relevant field
harness! { fn scratch_dict_then_reset() {
    nd::set_stub_arg(0, 17);
    let mut d = Dictionary { id: nd::any(), fse: FSEScratch::new(), huf: HuffmanScratch::new(), dict_content: alloc::vec::Vec::new(), offset_hist: [nd::any(), nd::any(), nd::any()] };
    fsek::dirty_table(&mut d.fse.literal_lengths);
    fsek::dirty_table(&mut d.fse.match_lengths);
    fsek::dirty_table(&mut d.fse.offsets);
    d.fse.ll_rle = if nd::any() { Some(nd::any()) } else { None };
    hufk::dirty_table(&mut d.huf.table);
    d.dict_content.push(nd::any()); d.dict_content.push(nd::any());
    let mut s = DecoderScratch::new(8);
    dirty(&mut s);
    s.init_from_dict(&d);
    assert!(s.offset_hist[0] == d.offset_hist[0] && s.offset_hist[1] == d.offset_hist[1] && s.offset_hist[2] == d.offset_hist[2], "dictionary repeat offsets not installed");
    assert!(s.buffer.dict_content.len() == 2 && s.buffer.dict_content[0] == d.dict_content[0] && s.buffer.dict_content[1] == d.dict_content[1], "dictionary content not installed");
    assert!(fsek::tables_equal(&s.fse.literal_lengths, &d.fse.literal_lengths) && fsek::tables_equal(&s.fse.match_lengths, &d.fse.match_lengths)
        && fsek::tables_equal(&s.fse.offsets, &d.fse.offsets), "dictionary FSE tables not installed");
    assert!(s.fse.ll_rle == d.fse.ll_rle && s.fse.ml_rle == d.fse.ml_rle && s.fse.of_rle == d.fse.of_rle);
    assert!(hufk::tables_equal(&s.huf.table, &d.huf.table), "dictionary Huffman table not installed");
    let w: usize = nd::any();
    nd::assume(w <= 16);
    s.reset(w);
    assert_fresh(&s, w);
    nd_cover!(true, "done");
    core::mem::forget(s); core::mem::forget(d);
} }
