// Child module of decoding/literals_section_decoder.rs: Huffman-coded literal streams through the REAL decode loops
// (decode_literals -> decompress_literals -> HuffmanDecoder over BitReaderReversed) on symbolic streams, with the table
// injected (literals type Treeless = "use the table already in the scratch"), against a prefix-code model.
use super::*;
use crate::verif_nd as nd;
use crate::verif_nd::{harness, nd_cover};

const A: u8 = 0x41; const B: u8 = 0x42; const C: u8 = 0x43;

/// prefix-decode (A='0', B='10', C='11') the `n` bits below the padding marker of `v`, highest first; bits past the
/// start read as 0.  Returns (symbols, count, code bits consumed).
fn model_decode(v: u32, n: i32, out: &mut [u8; 24]) -> (usize, i32) {
    let mut pos = n; let mut cnt = 0usize; let mut used = 0i32;
    while used < n {
        pos -= 1;
        let b1 = if pos >= 0 { (v >> pos) & 1 } else { 0 };
        if b1 == 0 { out[cnt] = A; used += 1; }
        else {
            pos -= 1;
            let b2 = if pos >= 0 { (v >> pos) & 1 } else { 0 };
            out[cnt] = if b2 == 0 { B } else { C };
            used += 2;
        }
        cnt += 1;
    }
    (cnt, used)
}

// one stream: every stream of 1..=2 bytes (non-zero last byte), every claimed regenerated size
harness! { fn lit_huff_one_stream_matches_prefix_model() {
    let mut hs = HuffmanScratch::new();
    crate::huff0::verif_kani::inject_abc_table(&mut hs.table, A, B, C);
    // one-byte stream (up to 7 code bits); two-byte streams exhausted 10 GB (the decode loop pushes into a Vec whose
    // length becomes symbolic)
    let mut stream: [u8; 2] = [nd::any(), 0];
    let len: usize = 1;
    nd::assume(stream[0] != 0);
    let regen: u32 = nd::any();
    nd::assume(regen <= 8);
    let section = LiteralsSection { regenerated_size: regen, compressed_size: Some(len as u32), num_streams: Some(1), ls_type: LiteralsSectionType::Treeless };
    let mut target: Vec<u8> = Vec::with_capacity(24);
    let r = decode_literals(&section, &mut hs, &stream[..len], &mut target);
    let v = (stream[0] as u32) | (stream[1] as u32) << 8;
    let n = 31 - v.leading_zeros() as i32;
    let mut want = [0u8; 24];
    let (cnt, used) = model_decode(v, n, &mut want);
    match r {
        Ok(bytes) => {
            assert!(bytes as usize == len, "bytes consumed by the literals section");
            assert!(cnt == regen as usize, "literal count accepted although it differs from the declared size");
            assert!(target.len() == cnt);
            let j: usize = nd::any(); nd::assume(j < cnt);
            assert!(target[j] == want[j], "Huffman-decoded literals differ from the prefix-code model");
            nd_cover!(cnt >= 4 && used == n, "several symbols, stream consumed exactly");
        }
        Err(e) => { core::mem::forget(e); assert!(cnt != regen as usize, "valid Huffman literal stream refused"); }
    }
    nd_cover!(cnt != regen as usize, "count mismatch");
    core::mem::forget(target); core::mem::forget(hs);
} }

// four streams: jump table (three u16 sizes) + four one-byte streams; every stream byte symbolic
harness! { fn lit_huff_four_streams_match_prefix_model() {
    let mut hs = HuffmanScratch::new();
    crate::huff0::verif_kani::inject_abc_table(&mut hs.table, A, B, C);
    let s: [u8; 4] = nd::any();
    nd::assume(s[0] != 0 && s[1] != 0 && s[2] != 0 && s[3] != 0);
    let src = [1u8, 0, 1, 0, 1, 0, s[0], s[1], s[2], s[3]];
    let regen: u32 = nd::any();
    nd::assume(regen <= 28);
    let section = LiteralsSection { regenerated_size: regen, compressed_size: Some(10), num_streams: Some(4), ls_type: LiteralsSectionType::Treeless };
    let mut target: Vec<u8> = Vec::with_capacity(32);
    let r = decode_literals(&section, &mut hs, &src[..], &mut target);
    let mut want = [0u8; 32];
    let mut total = 0usize; let mut exact = true;
    let mut k = 0;
    while k < 4 {
        let v = s[k] as u32;
        let n = 31 - v.leading_zeros() as i32;
        let mut w = [0u8; 24];
        let (cnt, used) = model_decode(v, n, &mut w);
        if used != n { exact = false; } // a code cut short by the start of its stream: the four-stream decoder must refuse
        let mut j = 0; while j < cnt { want[total + j] = w[j]; j += 1; }
        total += cnt;
        k += 1;
    }
    match r {
        Ok(bytes) => {
            assert!(bytes == 10);
            assert!(exact, "a stream whose last code is cut short was accepted");
            assert!(total == regen as usize, "literal count accepted although it differs from the declared size");
            let j: usize = nd::any(); nd::assume(j < total);
            assert!(target[j] == want[j], "four-stream literals differ from the prefix-code model (content or stream order)");
            nd_cover!(total >= 12, "several symbols per stream");
        }
        Err(e) => { core::mem::forget(e); assert!(!exact || total != regen as usize, "valid four-stream literals refused"); }
    }
    nd_cover!(!exact, "cut code");
    core::mem::forget(target); core::mem::forget(hs);
} }
