use super::*;
use crate::verif_nd as nd;
use crate::verif_nd::{harness, nd_cover};

// RFC 8878 3.1.1.5 transcribed independently of the implementation
fn spec(of: u32, ll: u32, h: [u32; 3]) -> (u32, [u32; 3]) {
    if of > 3 {
        let o = of - 3;
        return (o, [o, h[0], h[1]]);
    }
    let idx = if ll == 0 { of } else { of - 1 }; // 0..=3
    match idx {
        0 => (h[0], h),
        1 => (h[1], [h[1], h[0], h[2]]),
        2 => (h[2], [h[2], h[0], h[1]]),
        _ => { let o = h[0].wrapping_sub(1); (o, [o, h[0], h[1]]) }
    }
}

// C14/C01: repeat-offset machine for every offset value >= 1, every literal length, every history of non-zero offsets
harness! { fn offset_history_matches_spec() {
    let of: u32 = nd::any();
    let ll: u32 = nd::any();
    let h0: u32 = nd::any(); let h1: u32 = nd::any(); let h2: u32 = nd::any();
    let h = [h0, h1, h2];
    nd::assume(of >= 1);
    nd::assume(h[0] >= 1 && h[1] >= 1 && h[2] >= 1);
    let mut s = h;
    let got = do_offset_history(of, ll, &mut s);
    let (want, wh) = spec(of, ll, h);
    assert!(got == want, "actual offset differs from the specification");
    // offset 0 is "corrupted data" (rejected by the caller); the history after it is irrelevant
    if got != 0 { assert!(s[0] == wh[0] && s[1] == wh[1] && s[2] == wh[2], "history differs from the specification"); }
    nd_cover!(of == 3 && ll == 0, "offset 3 with zero literal length");
    nd_cover!(of == 2 && ll > 0, "repeat 2");
    nd_cover!(of > 3, "new offset");
} }

// C03: hostile histories (zeros from a malformed dictionary): no under/overflow, no panic, for every input
harness! { fn offset_history_total_no_panic() {
    let of: u32 = nd::any();
    let ll: u32 = nd::any();
    let h0: u32 = nd::any(); let h1: u32 = nd::any(); let h2: u32 = nd::any();
    nd::assume(of >= 1);
    let mut s = [h0, h1, h2];
    let got = do_offset_history(of, ll, &mut s);
    if of == 3 && ll == 0 && h0 == 0 { assert!(got == 0); }
    nd_cover!(h0 == 0 && of == 3 && ll == 0, "the #115 case");
} }
