use super::*;
use crate::verif_nd as nd;
use crate::verif_nd::{harness, nd_cover};

// RFC 8878 3.1.1.5 transcribed independently of the implementation
pub(crate) fn spec(of: u32, ll: u32, h: [u32; 3]) -> (u32, [u32; 3]) {
    if of > 3 {
        let o = of - 3;
        return (o, [o, h[0], h[1]]);
    }
    let idx = if ll == 0 { of } else { of - 1 }; // 0..=3
    match idx {
        0 => (h[0], h),
        1 => (h[1], [h[1], h[0], h[2]]),
        2 => (h[2], [h[2], h[0], h[1]]),
        _ => { let o = h[0].wrapping_sub(1); (o, [o, h[0], h[1]]) }
    }
}

// C14/C01: repeat-offset machine for every offset value >= 1, every literal length, every history of non-zero offsets
harness! { fn offset_history_matches_spec() {
    let of: u32 = nd::any();
    let ll: u32 = nd::any();
    let h0: u32 = nd::any(); let h1: u32 = nd::any(); let h2: u32 = nd::any();
    let h = [h0, h1, h2];
    nd::assume(of >= 1);
    nd::assume(h[0] >= 1 && h[1] >= 1 && h[2] >= 1);
    let mut s = h;
    let got = do_offset_history(of, ll, &mut s);
    let (want, wh) = spec(of, ll, h);
    assert!(got == want, "actual offset differs from the specification");
    // offset 0 is "corrupted data" (rejected by the caller); the history after it is irrelevant
    if got != 0 { assert!(s[0] == wh[0] && s[1] == wh[1] && s[2] == wh[2], "history differs from the specification"); }
    nd_cover!(of == 3 && ll == 0, "offset 3 with zero literal length");
    nd_cover!(of == 2 && ll > 0, "repeat 2");
    nd_cover!(of > 3, "new offset");
} }

// C03: hostile histories (zeros from a malformed dictionary): no under/overflow, no panic, for every input
harness! { fn offset_history_total_no_panic() {
    let of: u32 = nd::any();
    let ll: u32 = nd::any();
    let h0: u32 = nd::any(); let h1: u32 = nd::any(); let h2: u32 = nd::any();
    nd::assume(of >= 1);
    let mut s = [h0, h1, h2];
    let got = do_offset_history(of, ll, &mut s);
    if of == 3 && ll == 0 && h0 == 0 { assert!(got == 0); }
    nd_cover!(h0 == 0 && of == 3 && ll == 0, "the #115 case");
} }

// ------------------------------------------------------------------------------------------------ C05
use crate::blocks::sequence_section::Sequence;
use alloc::vec::Vec;
use crate::decoding::decode_buffer::verif_kani as dbk;
use crate::decoding::ringbuffer::verif_kani as rbk;

// C05/C03: execute_sequences never makes the output buffer grow by more than one maximum block (128 KiB), whatever
// the sequences are: it returns an error first.  Counting ring (S11): only lengths are tracked.
fn exec_bound<const NSEQ: usize>() {
    nd::stubs(nd::S11_EXEC_SINK);
    let mut sc = DecoderScratch::new(1024);
    let before: usize = nd::any();
    nd::assume(before <= 1 << 32);
    dbk::set_ring(&mut sc.buffer, rbk::counting_ring(before));
    let w: usize = nd::any();
    sc.buffer.window_size = w;
    let toc: u64 = nd::any();
    nd::assume(toc <= 1 << 62);
    dbk::set_total_output_counter(&mut sc.buffer, toc);
    // literals: after the literals-section guard at most one maximum block, content irrelevant for the bound
    let nlit: usize = nd::any();
    nd::assume(nlit <= 128 * 1024);
    // under S11 literal bytes are never read, only their count matters
    sc.literals_buffer = Vec::with_capacity(128 * 1024);
    unsafe { sc.literals_buffer.set_len(nlit); }
    let h0: u32 = nd::any(); let h1: u32 = nd::any(); let h2: u32 = nd::any();
    sc.offset_hist = [h0, h1, h2];
    let mut k = 0;
    while k < NSEQ {
        let ll: u32 = nd::any(); let ml: u32 = nd::any(); let of: u32 = nd::any();
        // what decode_sequences can produce: table maxima of RFC 8878 (literal length <= 131071, match length <= 131074)
        nd::assume(ll <= 131071 && ml >= 3 && ml <= 131074 && of >= 1);
        sc.sequences.push(Sequence { ll, ml, of });
        k += 1;
    }
    let r = execute_sequences(&mut sc);
    let after = sc.buffer.len();
    assert!(after >= before);
    assert!(after - before <= 128 * 1024, "one block made the decoder buffer more than 128 KiB");
    nd_cover!(r.is_ok() && after - before == 128 * 1024, "a block of exactly the maximum size is accepted");
    nd_cover!(r.is_err(), "an oversized block is refused");
    match r { Ok(()) => {}, Err(e) => core::mem::forget(e) }
    core::mem::forget(sc);
}
harness! { fn c05_exec_bound_1seq() { exec_bound::<1>(); } }
harness! { fn c05_exec_bound_2seq() { exec_bound::<2>(); } }
harness! { fn c05_exec_bound_3seq() { exec_bound::<3>(); } }

// C03: the precondition the chunk loop of DecodeBuffer::repeat needs (offset >= 1) holds at its only caller, for every
// sequence incl. offset value 3 with zero literal length on a history holding 1 (S11e asserts it inside repeat).
harness! { fn exec_never_repeats_offset_zero() { exec_bound::<2>(); } }
