use super::*;
use crate::verif_nd as nd;
use crate::verif_nd::{harness, nd_cover};

const RFC_MIN_WINDOW: u64 = 1024;
const RFC_MAX_WINDOW: u64 = (1u64 << 41) + 7 * (1u64 << 38); // RFC 8878 3.1.1.1.2: 3.75 TB

// C11/C14: window size for every window descriptor and every single-segment content size == RFC formula;
// windows outside the legal range are refused, every legal one (incl. the maximum itself) is accepted.
harness! { fn window_size_all_descriptors() {
    let wd: u8 = nd::any();
    let fcs: u64 = nd::any();
    let single: bool = nd::any();
    let h = FrameHeader { descriptor: FrameDescriptor(if single { 0x20 } else { 0 }), window_descriptor: wd, dict_id: None, frame_content_size: fcs };
    let r = h.window_size();
    if single {
        match r { Ok(w) => assert!(w == fcs, "single segment window is the content size"), Err(e) => { core::mem::forget(e); assert!(false, "single segment window refused"); } }
    } else {
        let exp = (wd >> 3) as u64;
        let mant = (wd & 7) as u64;
        let base = 1u64 << (10 + exp);
        let w = base + (base / 8) * mant;
        match r {
            Ok(x) => { assert!(x == w, "window size differs from the RFC formula"); assert!(w >= RFC_MIN_WINDOW && w <= RFC_MAX_WINDOW); }
            Err(e) => { core::mem::forget(e); assert!(w < RFC_MIN_WINDOW || w > RFC_MAX_WINDOW, "legal window size refused"); }
        }
        nd_cover!(wd == 0xFF, "largest descriptor");
        nd_cover!(wd == 0, "smallest descriptor");
    }
} }

// C01/C14/C03: every byte string of <= 14 bytes after the magic number: fields, sizes and consumption per RFC 8878 3.1.1.1
harness! { fn frame_header_fields_match_rfc() {
    let mut buf: [u8; 18] = nd::any();
    buf[0] = 0x28; buf[1] = 0xB5; buf[2] = 0x2F; buf[3] = 0xFD;
    let len: usize = nd::any();
    nd::assume(len >= 4 && len <= 18);
    let mut src: &[u8] = &buf[..len];
    let r = read_frame_header(&mut src);
    if len < 5 { match r { Ok(_) => assert!(false), Err(e) => core::mem::forget(e) } return; }
    let d = buf[4];
    let fcs_flag = d >> 6; let single = (d >> 5) & 1 == 1; let ck = (d >> 2) & 1 == 1; let did_flag = d & 3;
    let did_len: usize = match did_flag { 0 => 0, 1 => 1, 2 => 2, _ => 4 };
    let fcs_len: usize = match fcs_flag { 0 => if single { 1 } else { 0 }, 1 => 2, 2 => 4, _ => 8 };
    let wd_len: usize = if single { 0 } else { 1 };
    let need = 5 + wd_len + did_len + fcs_len;
    if len < need { match r { Ok(_) => assert!(false, "truncated header accepted"), Err(e) => core::mem::forget(e) } return; }
    let (h, n) = match r { Ok(x) => x, Err(e) => { core::mem::forget(e); panic!("well-formed header refused"); } };
    assert!(n as usize == need, "header length");
    assert!(src.len() == len - need, "bytes consumed");
    assert!(h.descriptor.content_checksum_flag() == ck && h.descriptor.single_segment_flag() == single);
    let mut p = 5;
    if !single { assert!(h.window_descriptor == buf[5]); p += 1; }
    let mut did: u32 = 0;
    let mut k = 0; while k < did_len { did |= (buf[p + k] as u32) << (8 * k); k += 1; }
    p += did_len;
    // a dictionary id of 0 means "no dictionary"
    if did_len == 0 || did == 0 { assert!(h.dictionary_id().is_none()); } else { assert!(h.dictionary_id() == Some(did)); }
    let mut fcs: u64 = 0;
    let mut k = 0; while k < fcs_len { fcs |= (buf[p + k] as u64) << (8 * k); k += 1; }
    if fcs_len == 2 { fcs += 256; }
    assert!(h.frame_content_size() == fcs, "content size differs from the RFC");
    nd_cover!(fcs_len == 8 && did_len == 4 && !single, "longest header");
    nd_cover!(fcs_len == 2, "the +256 form");
    nd_cover!(did_len == 2 && did == 0, "zero dictionary id");
} }

/// build a header value directly (private fields) - used by state-injection harnesses in frame_decoder.rs
pub(crate) fn mk_header(descriptor: u8, window_descriptor: u8, fcs: u64) -> FrameHeader {
    FrameHeader { descriptor: FrameDescriptor(descriptor), window_descriptor, dict_id: None, frame_content_size: fcs }
}
