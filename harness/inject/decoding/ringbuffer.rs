use super::*;
use crate::verif_nd as nd;
use crate::verif_nd::{harness, nd_cover};

/// S1: stub body for reserve_amortized
pub(crate) fn fixed_first_alloc(rb: &mut RingBuffer, _amount: usize) {
    assert!(rb.cap == 0, "ring growth outside the bound of this harness");
    let cap = nd::stub_arg(0);
    let layout = Layout::array::<u8>(cap).unwrap();
    let p = unsafe { alloc(layout) };
    rb.buf = NonNull::new(p).unwrap();
    rb.cap = cap;
}
