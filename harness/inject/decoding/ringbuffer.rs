// Injected as a child module of decoding/ringbuffer.rs: sees RingBuffer's private fields and the private
// copy_bytes_overshooting.  C04 inductive-step harnesses: arbitrary valid pre-state, one operation, model comparison.
use super::*;
use crate::verif_nd as nd;
use crate::verif_nd::{harness, nd_cover};

/// S1: stub body for reserve_amortized
pub(crate) fn fixed_first_alloc(rb: &mut RingBuffer, _amount: usize) {
    if nd::stub_arg(1) == 1 {
        // ghost mode (C11): only record that memory was requested
        nd::set_ghost(5, nd::ghost(5) + 1);
        return;
    }
    assert!(rb.cap == 0, "ring growth outside the bound of this harness");
    let cap = nd::stub_arg(0);
    let layout = Layout::array::<u8>(cap).unwrap();
    let p = unsafe { alloc(layout) };
    rb.buf = NonNull::new(p).unwrap();
    rb.cap = cap;
}

/// Arbitrary valid state of capacity CAP (= RES rounded up to a power of two, plus the sentinel):
/// allocated by the real `reserve`, EVERY byte of the allocation symbolic (live data and poison in the free
/// region alike), head and tail anywhere inside the documented invariant (both < cap).
pub(crate) fn mk<const RES: usize, const CAP: usize>() -> (RingBuffer, [u8; CAP], usize, usize, usize) {
    let mut rb = RingBuffer::new();
    rb.reserve(RES);
    assert!(rb.cap == CAP);
    let init: [u8; CAP] = nd::any();
    unsafe { core::ptr::copy_nonoverlapping(init.as_ptr(), rb.buf.as_ptr(), CAP); }
    let head: usize = nd::any();
    let tail: usize = nd::any();
    nd::assume(head < CAP && tail < CAP);
    rb.head = head;
    rb.tail = tail;
    let len = if tail >= head { tail - head } else { CAP - head + tail };
    (rb, init, head, tail, len)
}

fn inv<const CAP: usize>(rb: &RingBuffer) {
    assert!(rb.cap == CAP && rb.head < CAP && rb.tail < CAP, "position invariant broken");
}

#[inline(always)]
fn byte_at(rb: &RingBuffer, i: usize) -> u8 {
    unsafe { *rb.buf.as_ptr().add((rb.head + i) % rb.cap) }
}

// ---------------------------------------------------------------- extend_from_within_unchecked
// REGION splits the pre-state space for parallel solving: 0 = everything, 1 = head < tail, 2 = head >= tail and the
// source starts behind the wrap point, 3 = head >= tail and the source starts before the wrap point.
fn step_efw<const RES: usize, const CAP: usize, const REGION: u8>() {
    let (mut rb, init, head, tail, len) = mk::<RES, CAP>();
    assert!(rb.len() == len);
    assert!(rb.free() == CAP - 1 - len);
    let start: usize = nd::any();
    let n: usize = nd::any();
    nd::assume(start <= len && n <= len - start); // documented precondition 1
    nd::assume(n <= CAP - 1 - len); // documented precondition 2 (space reserved)
    match REGION {
        1 => nd::assume(head < tail),
        2 => nd::assume(head >= tail && head + start > CAP),
        3 => nd::assume(head >= tail && head + start <= CAP),
        _ => {}
    }
    unsafe { rb.extend_from_within_unchecked(start, n) };
    inv::<CAP>(&rb);
    assert!(rb.head == head);
    assert!(rb.tail == (tail + n) % CAP);
    assert!(rb.len() == len + n);
    nd_cover!((REGION > 1) || (head < tail && n > CAP - tail), "case 1 with wrapped destination");
    nd_cover!((REGION == 1 || REGION == 3) || (head > tail && head + start > CAP && n > 0), "case 2 source behind the wrap");
    nd_cover!((REGION == 1 || REGION == 2) || (head > tail && head + start <= CAP && n > CAP - head - start), "case 3 source across the wrap");
    nd_cover!(CAP < 33 || (CAP < 65 && REGION == 2) || n >= 16, "copy of a whole 16-byte chunk or more");
    nd_cover!(CAP < 33 || (n > 0 && n < 16 && len >= 16), "short copy through the wide single-chunk path");
    nd_cover!(n == 0, "empty copy");
    let i: usize = nd::any();
    nd::assume(i < len + n);
    let src_i = if i < len { i } else { start + (i - len) };
    let want = init[(head + src_i) % CAP];
    assert!(byte_at(&rb, i) == want, "queue content differs from the model after copy-from-within");
}
harness! { fn rb_efw_cap9() { step_efw::<8, 9, 0>(); } }
harness! { fn rb_efw_cap17() { step_efw::<16, 17, 0>(); } }
harness! { fn rb_efw_cap33_r1() { step_efw::<32, 33, 1>(); } }
harness! { fn rb_efw_cap33_r2() { step_efw::<32, 33, 2>(); } }
harness! { fn rb_efw_cap33_r3() { step_efw::<32, 33, 3>(); } }
harness! { fn rb_efw_cap65_r1() { step_efw::<64, 65, 1>(); } }
harness! { fn rb_efw_cap65_r2() { step_efw::<64, 65, 2>(); } }
harness! { fn rb_efw_cap65_r3() { step_efw::<64, 65, 3>(); } }

// ---------------------------------------------------------------- call-site contract of copy_bytes_overshooting (S12)
/// S12 stub body.  GHOST[0..4] = (buf address, cap, head, tail) of the ring before the operation.
/// Contract of copy_bytes_overshooting as the real routine implements it (shown by copy_overshooting_contract_*):
/// with m = min(src.1, dst.1) and n = copy_at_least <= m it reads only src[0..m), writes only dst[0..m),
/// and afterwards dst[0..n) == src[0..n); dst[n..m) is unspecified.
pub(crate) unsafe fn copy_contract_stub(src: (*const u8, usize), dst: (*mut u8, usize), n: usize) {
    let buf = nd::ghost(0) as usize;
    let cap = nd::ghost(1) as usize;
    let head = nd::ghost(2) as usize;
    let tail = nd::ghost(3) as usize;
    let so = (src.0 as usize).wrapping_sub(buf);
    let dof = (dst.0 as usize).wrapping_sub(buf);
    let m = if src.1 < dst.1 { src.1 } else { dst.1 };
    assert!(so <= cap && dof <= cap, "pointer handed to the chunked copy leaves the allocation");
    assert!(n <= m, "copy_at_least exceeds one of the ranges");
    if m > 0 {
        assert!(m <= cap - so && m <= cap - dof, "effective range leaves the allocation");
        let ok = if head <= tail { so >= head && so + m <= tail } else { so >= head || so + m <= tail };
        assert!(ok, "bytes the chunked copy may read are not all inside the initialised region");
        let ok = if head <= tail { dof >= tail || dof + m <= head } else { dof >= tail && dof + m <= head };
        assert!(ok, "bytes the chunked copy may write are not all inside the free region");
    }
    core::ptr::copy_nonoverlapping(src.0, dst.0, n);
    // whatever the real routine may write into the rest of the effective destination range
    let junk: [u8; 72] = nd::any();
    core::ptr::copy_nonoverlapping(junk.as_ptr(), dst.0.add(n), m - n);
    nd::set_ghost(4, nd::ghost(4) + 1);
}

fn step_efw_contract<const RES: usize, const CAP: usize>() {
    nd::stubs(nd::S12_COPY_CONTRACT);
    let (mut rb, init, head, tail, len) = mk::<RES, CAP>();
    nd::set_ghost(0, rb.buf.as_ptr() as usize as u64);
    nd::set_ghost(1, CAP as u64);
    nd::set_ghost(2, head as u64);
    nd::set_ghost(3, tail as u64);
    nd::set_ghost(4, 0);
    let start: usize = nd::any();
    let n: usize = nd::any();
    nd::assume(start <= len && n <= len - start);
    nd::assume(n <= CAP - 1 - len);
    unsafe { rb.extend_from_within_unchecked(start, n) };
    inv::<CAP>(&rb);
    assert!(rb.head == head && rb.tail == (tail + n) % CAP && rb.len() == len + n);
    assert!(nd::ghost(4) >= 1, "the copy routine was never reached");
    nd_cover!(head < tail && n > CAP - tail, "case 1 with wrapped destination");
    nd_cover!(head > tail && head + start > CAP && n > 0, "case 2 source behind the wrap");
    nd_cover!(head > tail && head + start <= CAP && n > CAP - head - start, "case 3 source across the wrap");
    nd_cover!(nd::ghost(4) == 2, "two copy calls");
    let i: usize = nd::any();
    nd::assume(i < len + n);
    let src_i = if i < len { i } else { start + (i - len) };
    assert!(byte_at(&rb, i) == init[(head + src_i) % CAP], "queue content differs from the model for some contract-respecting copy");
}
harness! { fn rb_efw_contract_cap9() { step_efw_contract::<8, 9>(); } }
harness! { fn rb_efw_contract_cap17() { step_efw_contract::<16, 17>(); } }
harness! { fn rb_efw_contract_cap33() { step_efw_contract::<32, 33>(); } }
harness! { fn rb_efw_contract_cap65() { step_efw_contract::<64, 65>(); } }

// ---------------------------------------------------------------- extend(&[u8])
fn step_extend<const RES: usize, const CAP: usize>() {
    let (mut rb, init, head, tail, len) = mk::<RES, CAP>();
    let data: [u8; CAP] = nd::any();
    let n: usize = nd::any();
    nd::assume(n <= CAP - 1 - len); // no growth: growth is decided separately (rb_reserve_grow_*)
    rb.extend(&data[..n]);
    inv::<CAP>(&rb);
    assert!(rb.head == head && rb.tail == (tail + n) % CAP && rb.len() == len + n);
    let i: usize = nd::any();
    nd::assume(i < len + n);
    let want = if i < len { init[(head + i) % CAP] } else { data[i - len] };
    assert!(byte_at(&rb, i) == want, "queue content differs from the model after extend");
    nd_cover!(n > 0 && tail + n > CAP, "append wraps");
    nd_cover!(n == CAP - 1, "fills an empty ring completely");
    nd_cover!(n == 0, "empty append");
}
harness! { fn rb_extend_cap9() { step_extend::<8, 9>(); } }
harness! { fn rb_extend_cap17() { step_extend::<16, 17>(); } }
harness! { fn rb_extend_cap33() { step_extend::<32, 33>(); } }

// ---------------------------------------------------------------- extend_and_fill, drop_first_n, get
fn step_fill_drop<const RES: usize, const CAP: usize>() {
    let (mut rb, init, head, tail, len) = mk::<RES, CAP>();
    let n: usize = nd::any();
    nd::assume(n <= CAP - 1 - len);
    let b: u8 = nd::any();
    rb.extend_and_fill(b, n);
    inv::<CAP>(&rb);
    assert!(rb.len() == len + n && rb.head == head && rb.tail == (tail + n) % CAP);
    let d: usize = nd::any();
    nd::assume(d <= len + n); // precondition (debug_assert) of drop_first_n; its only caller is shown to respect it in db_drain_*
    rb.drop_first_n(d);
    inv::<CAP>(&rb);
    assert!(rb.len() == len + n - d && rb.head == (head + d) % CAP);
    nd_cover!(n > 0 && tail + n > CAP, "fill wraps");
    nd_cover!(d > 0 && head + d >= CAP, "drop wraps");
    nd_cover!(d == len + n && d > 0, "drop everything");
    let j: usize = nd::any();
    nd::assume(j >= len + n - d);
    assert!(rb.get(j).is_none(), "get beyond the end must be None");
    if len + n - d > 0 {
        let i: usize = nd::any();
        nd::assume(i < len + n - d);
        let k = i + d;
        let want = if k < len { init[(head + k) % CAP] } else { b };
        assert!(rb.get(i) == Some(want), "queue content differs from the model after fill+drop");
    }
}
harness! { fn rb_fill_drop_cap9() { step_fill_drop::<8, 9>(); } }
harness! { fn rb_fill_drop_cap17() { step_fill_drop::<16, 17>(); } }
harness! { fn rb_fill_drop_cap33() { step_fill_drop::<32, 33>(); } }

// ---------------------------------------------------------------- as_slices / len / free / clear / push_back
fn step_views<const RES: usize, const CAP: usize>() {
    let (mut rb, init, head, tail, len) = mk::<RES, CAP>();
    assert!(rb.len() == len && rb.free() == CAP - 1 - len);
    {
        let (s1, s2) = rb.as_slices();
        assert!(s1.len() + s2.len() == len);
        let i: usize = nd::any();
        nd::assume(i < len);
        let got = if i < s1.len() { s1[i] } else { s2[i - s1.len()] };
        assert!(got == init[(head + i) % CAP], "as_slices does not present the queue in order");
        nd_cover!(s2.len() > 0 && s1.len() > 0, "two segments");
    }
    let push: bool = nd::any();
    if push {
        nd::assume(len < CAP - 1);
        let b: u8 = nd::any();
        rb.push_back(b);
        inv::<CAP>(&rb);
        assert!(rb.len() == len + 1 && rb.get(len) == Some(b));
        let i: usize = nd::any();
        nd::assume(i < len);
        assert!(rb.get(i) == Some(init[(head + i) % CAP]));
        nd_cover!(tail == CAP - 1, "push wraps tail");
    } else {
        rb.clear();
        assert!(rb.len() == 0 && rb.free() == CAP - 1 && rb.head == 0 && rb.tail == 0 && rb.cap == CAP);
        assert!(rb.get(0).is_none());
    }
}
harness! { fn rb_views_cap9() { step_views::<8, 9>(); } }
harness! { fn rb_views_cap17() { step_views::<16, 17>(); } }

// ---------------------------------------------------------------- reserve -> real reserve_amortized (grow, linearise, free)
fn step_grow<const RES: usize, const CAP: usize, const NEWCAP: usize>(extra: usize) {
    let (mut rb, init, head, tail, len) = mk::<RES, CAP>();
    let free = CAP - 1 - len;
    rb.reserve(free + extra);
    assert!(rb.cap == NEWCAP, "unexpected capacity after growth");
    assert!(rb.head == 0 && rb.tail == len && rb.len() == len);
    assert!(rb.free() >= free + extra);
    let i: usize = nd::any();
    nd::assume(i < len);
    assert!(byte_at(&rb, i) == init[(head + i) % CAP], "content changed by growth");
    nd_cover!(tail < head, "wrapped content is linearised");
    nd_cover!(len == CAP - 1, "full ring grows");
    // Drop runs here: dealloc of the new block with the layout derived from cap (checked by CBMC's free() model)
}
harness! { fn rb_reserve_grow_9_to_17() { step_grow::<8, 9, 17>(1); } }
harness! { fn rb_reserve_grow_9_to_33() { step_grow::<8, 9, 33>(9); } }
harness! { fn rb_reserve_grow_17_to_33() { step_grow::<16, 17, 33>(1); } }

// reserve that needs no growth leaves everything untouched
harness! { fn rb_reserve_nogrow_cap9() {
    let (mut rb, init, head, tail, len) = mk::<8, 9>();
    let amount: usize = nd::any();
    nd::assume(amount <= 8 - len);
    let p = rb.buf;
    rb.reserve(amount);
    assert!(rb.cap == 9 && rb.head == head && rb.tail == tail && rb.buf == p);
    nd_cover!(amount == 8 - len, "exactly the free space");
} }

// first allocation from the empty state, for every small amount
harness! { fn rb_first_reserve_small() {
    let amount: usize = nd::any();
    nd::assume(amount >= 1 && amount <= 33);
    let mut rb = RingBuffer::new();
    assert!(rb.len() == 0 && rb.free() == 0);
    rb.reserve(amount);
    assert!(rb.cap == amount.next_power_of_two() + 1);
    assert!(rb.free() >= amount && rb.len() == 0 && rb.head == 0 && rb.tail == 0);
    nd_cover!(amount == 33, "largest");
} }

// ---------------------------------------------------------------- extend_from_reader
struct ChunkReader<'a> { data: &'a [u8], pos: usize, fail_at: usize }
impl<'a> Read for ChunkReader<'a> {
    fn read(&mut self, buf: &mut [u8]) -> Result<usize, crate::io::Error> {
        if self.pos == self.fail_at {
            self.fail_at = usize::MAX;
            return Err(crate::io::Error::from(crate::io::ErrorKind::Other));
        }
        let avail = self.data.len() - self.pos;
        let want: usize = nd::any(); // arbitrary short read
        nd::assume(want >= 1);
        let mut n = if want < buf.len() { want } else { buf.len() };
        if n > avail { n = avail; }
        if self.fail_at != usize::MAX && self.pos < self.fail_at && self.pos + n > self.fail_at { n = self.fail_at - self.pos; }
        buf[..n].copy_from_slice(&self.data[self.pos..self.pos + n]);
        self.pos += n;
        Ok(n)
    }
}

fn step_from_reader<const RES: usize, const CAP: usize, const N: usize>() {
    let (mut rb, init, head, tail, len) = mk::<RES, CAP>();
    nd::assume(N <= CAP - 1 - len);
    let data: [u8; N] = nd::any();
    let avail: usize = nd::any(); // the reader may hit EOF early
    nd::assume(avail <= N);
    let fail_at: usize = nd::any(); // or fail with a hard error after fail_at bytes (usize::MAX: never)
    nd::assume(fail_at <= N || fail_at == usize::MAX);
    let mut r = ChunkReader { data: &data[..avail], pos: 0, fail_at };
    let res = rb.extend_from_reader(&mut r, N);
    inv::<CAP>(&rb);
    assert!(rb.head == head);
    nd_cover!(N == 0 || (res.is_ok() && tail + N > CAP), "reader fill wraps");
    nd_cover!(N == 0 || (res.is_err() && avail < N), "early EOF");
    nd_cover!(N == 0 || (res.is_err() && fail_at < N), "hard error");
    match res {
        Ok(()) => {
            assert!(avail == N && (fail_at == usize::MAX || fail_at >= N), "Ok although the reader could not supply all bytes");
            assert!(rb.tail == (tail + N) % CAP && rb.len() == len + N);
            let i: usize = nd::any();
            nd::assume(i < len + N);
            let want = if i < len { init[(head + i) % CAP] } else { data[i - len] };
            assert!(byte_at(&rb, i) == want, "queue content differs from the model after extend_from_reader");
        }
        Err(e) => {
            core::mem::forget(e);
            assert!(avail < N || fail_at < N, "error although the reader had all bytes");
            // failed read: the queue is unchanged (tail not advanced)
            assert!(rb.tail == tail && rb.len() == len);
            let i: usize = nd::any();
            nd::assume(i < len);
            assert!(byte_at(&rb, i) == init[(head + i) % CAP], "live bytes changed by a failed read");
        }
    }
}
harness! { fn rb_from_reader_cap9_n3() { step_from_reader::<8, 9, 3>(); } }
harness! { fn rb_from_reader_cap9_n0() { step_from_reader::<8, 9, 0>(); } }
harness! { fn rb_from_reader_cap17_n5() { step_from_reader::<16, 17, 5>(); } }

// ---------------------------------------------------------------- copy_bytes_overshooting contract on its own
// src and dst are distinct 40-byte objects; the (ptr,len) pairs name arbitrary sub-ranges of them.  CBMC's pointer
// checks decide "reads only inside src.0..+src.1 / writes only inside dst.0..+dst.1" is at least "inside the objects";
// the canary comparison decides that nothing outside dst.0..+dst.1 changes.
fn copy_contract<const M: usize>() {
    let src: [u8; M] = nd::any();
    let dst0: [u8; M] = nd::any();
    let mut dst = dst0;
    let so: usize = nd::any(); let sl: usize = nd::any();
    let dof: usize = nd::any(); let dl: usize = nd::any();
    nd::assume(so <= M && sl <= M - so && dof <= M && dl <= M - dof);
    let n: usize = nd::any();
    nd::assume(n <= sl && n <= dl);
    unsafe { copy_bytes_overshooting((src.as_ptr().add(so), sl), (dst.as_mut_ptr().add(dof), dl), n); }
    let i: usize = nd::any();
    nd::assume(i < M);
    let m = if sl < dl { sl } else { dl };
    if i >= dof && i < dof + n { assert!(dst[i] == src[so + (i - dof)], "requested bytes not copied"); }
    // only dst[0..min(src.1, dst.1)) may change; whatever lands in dst[n..m) must come from src[n..m) (no invented bytes)
    if i < dof || i >= dof + m { assert!(dst[i] == dst0[i], "write outside the effective destination range"); }
    if i >= dof + n && i < dof + m { assert!(dst[i] == dst0[i] || dst[i] == src[so + (i - dof)], "overshoot wrote a byte that is neither old nor from the source range"); }
    nd_cover!(n > 16 && sl >= 32 && dl >= 32, "multi chunk path");
    nd_cover!(n <= 16 && sl >= 16 && dl >= 16, "single chunk path");
    nd_cover!(n > 0 && (sl < 16 || dl < 16), "memcpy fallback");
    nd_cover!(so + m == M && n > 0 && m >= 16, "effective source range ends at the object end");
    nd_cover!(dof + m == M && n > 0 && m >= 16, "effective destination range ends at the object end");
}
harness! { fn copy_overshooting_contract_m33() { copy_contract::<33>(); } }
harness! { fn copy_overshooting_contract_m48() { copy_contract::<48>(); } }

// ---------------------------------------------------------------- counting ring for S11 (C05)
/// A ring with a fictitious capacity of 2^40 and no memory behind it: under S11 every operation only moves `tail`,
/// so `len()` is the number of bytes the decoder would be holding.  Never dropped (the harness forgets it).
pub(crate) fn counting_ring(start_len: usize) -> RingBuffer {
    RingBuffer { buf: NonNull::dangling(), cap: 1usize << 40, head: 0, tail: start_len }
}
impl RingBuffer {
    pub(crate) fn verif_add_tail(&mut self, n: usize) { self.tail += n; }
}

// ---------------------------------------------------------------- S13: contract model of extend_from_within_unchecked
pub(crate) fn efw_model(rb: &mut RingBuffer, start: usize, len: usize) {
    assert!(start + len <= rb.len(), "copy-from-within reads beyond the data (documented precondition 1)");
    assert!(rb.free() >= len, "copy-from-within without reserved space (documented precondition 2)");
    let mut k = 0;
    while k < len {
        let s = (rb.head + start + k) % rb.cap;
        let d = (rb.tail + k) % rb.cap;
        unsafe { *rb.buf.as_ptr().add(d) = *rb.buf.as_ptr().add(s); }
        k += 1;
    }
    rb.tail = (rb.tail + len) % rb.cap;
}
