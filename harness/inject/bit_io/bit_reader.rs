use super::*;
use crate::verif_nd as nd;
use crate::verif_nd::{harness, nd_cover};

// C01/C03: forward bit reader == little-endian bit model, for every source <= 9 bytes and K reads of 1..=64 bits
// (callers never ask for 0 bits: widths are 2, 4 and highest_bit_set(x >= 2)); errors exactly when bits run out.
fn br_reads<const N: usize, const K: usize>() {
    let buf: [u8; N] = nd::any();
    let len: usize = nd::any();
    nd::assume(len <= N);
    let mut v: u128 = 0;
    let mut i = 0;
    while i < N { if i < len { v |= (buf[i] as u128) << (8 * i); } i += 1; }
    let mut r = BitReader::new(&buf[..len]);
    let mut pos = 0usize;
    let mut k = 0;
    let mut failed = false;
    while k < K && !failed {
        let n: usize = nd::any();
        nd::assume(n >= 1 && n <= 70);
        match r.get_bits(n) {
            Ok(x) => {
                assert!(n <= 64 && pos + n <= 8 * len, "read succeeded although not enough bits were left");
                let mask: u128 = if n == 64 { u64::MAX as u128 } else { (1u128 << n) - 1 };
                assert!(x as u128 == (v >> pos) & mask, "forward bit reader returned wrong bits");
                pos += n;
                assert!(r.bits_read() == pos && r.bits_left() == 8 * len - pos);
            }
            Err(e) => {
                core::mem::forget(e);
                assert!(n > 64 || pos + n > 8 * len, "read failed although enough bits were left");
                assert!(r.bits_read() == pos, "failed read consumed bits");
                failed = true;
            }
        }
        k += 1;
    }
    nd_cover!(!failed && pos == 8 * len && len == N, "consumed everything");
    nd_cover!(failed, "ran out of bits");
}
harness! { fn br_two_reads_9_bytes() { br_reads::<9, 2>(); } }
harness! { fn br_three_reads_6_bytes() { br_reads::<6, 3>(); } }

// return_bits(1) (used by the FSE probability reader) undoes exactly one bit
harness! { fn br_return_bits() {
    let buf: [u8; 4] = nd::any();
    let mut r = BitReader::new(&buf[..]);
    let n: usize = nd::any();
    nd::assume(n >= 1 && n <= 32);
    let a = match r.get_bits(n) { Ok(x) => x, Err(e) => { core::mem::forget(e); panic!("unexpected") } };
    r.return_bits(1);
    assert!(r.bits_read() == n - 1);
    let b = match r.get_bits(1) { Ok(x) => x, Err(e) => { core::mem::forget(e); panic!("unexpected") } };
    assert!(b == (a >> (n - 1)) & 1);
    nd_cover!(n == 32, "all bits");
} }
