use super::*;
use crate::verif_nd as nd;
use crate::verif_nd::{harness, nd_cover};

/// Reference: the source is one little-endian number of T = 8*len bits, read from the top; bits past the beginning are 0.
fn ref_bits(v: u128, total: usize, pos: usize, n: u8) -> u64 {
    let n = n as usize;
    if n == 0 { return 0; }
    let mask: u128 = (1u128 << n) - 1;
    if pos + n <= total {
        ((v >> (total - pos - n)) & mask) as u64
    } else if pos < total {
        let a = total - pos; // bits still available
        (((v & ((1u128 << a) - 1)) << (n - a)) & mask) as u64
    } else {
        0
    }
}

fn to_u128<const N: usize>(buf: &[u8; N], len: usize) -> u128 {
    let mut v: u128 = 0;
    let mut i = 0;
    while i < N {
        if i < len { v |= (buf[i] as u128) << (8 * i); }
        i += 1;
    }
    v
}

// C01/C03: K reads of arbitrary widths (each <= 56, the documented limit) from an arbitrary source of <= N bytes,
// including reads past the beginning of the source, equal the reference; bits_remaining is exact (negative past the start).
fn brr_reads<const N: usize, const K: usize>() {
    let buf: [u8; N] = nd::any();
    let len: usize = nd::any();
    nd::assume(len <= N);
    let v = to_u128(&buf, len);
    let total = 8 * len;
    let mut r = BitReaderReversed::new(&buf[..len]);
    assert!(r.bits_remaining() == total as isize);
    let mut pos = 0usize;
    let mut k = 0;
    while k < K {
        let n: u8 = nd::any();
        nd::assume(n <= 56);
        let got = r.get_bits(n);
        let want = ref_bits(v, total, pos, n);
        assert!(got == want, "reversed bit reader returned wrong bits");
        pos += n as usize;
        assert!(r.bits_remaining() == total as isize - pos as isize, "bits_remaining is off");
        k += 1;
    }
    nd_cover!(pos > total && len > 0, "read past the beginning of the source");
    nd_cover!(len == N && pos == total, "consumed exactly everything");
    nd_cover!(len == 0, "empty source");
}
harness! { fn brr_two_reads_12_bytes() { brr_reads::<12, 2>(); } }
harness! { fn brr_three_reads_16_bytes() { brr_reads::<16, 3>(); } }
harness! { fn brr_four_reads_9_bytes() { brr_reads::<9, 4>(); } }

// C01: get_bits_triple == three get_bits, including the > 56 bit fallback, after an arbitrary earlier read
harness! { fn brr_triple_equals_three_singles() {
    const N: usize = 16;
    let buf: [u8; N] = nd::any();
    let len: usize = nd::any();
    nd::assume(len <= N);
    let src = &buf[..len];
    let pre: u8 = nd::any();
    nd::assume(pre <= 16);
    let n1: u8 = nd::any(); let n2: u8 = nd::any(); let n3: u8 = nd::any();
    // widths the sequence decoder can ask for: offset code <= 31, match/literal length extra bits <= 16
    nd::assume(n1 <= 31 && n2 <= 16 && n3 <= 16);
    let mut a = BitReaderReversed::new(src);
    let mut b = BitReaderReversed::new(src);
    a.get_bits(pre); b.get_bits(pre);
    let (x1, x2, x3) = a.get_bits_triple(n1, n2, n3);
    let y1 = b.get_bits(n1); let y2 = b.get_bits(n2); let y3 = b.get_bits(n3);
    assert!(x1 == y1 && x2 == y2 && x3 == y3, "triple read differs from three single reads");
    assert!(a.bits_remaining() == b.bits_remaining());
    nd_cover!(n1 as u32 + n2 as u32 + n3 as u32 > 56, "fallback path");
    nd_cover!(n1 as u32 + n2 as u32 + n3 as u32 == 56, "largest fast path");
    nd_cover!(a.bits_remaining() < 0, "past the start");
} }
