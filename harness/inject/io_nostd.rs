// Child module of io_nostd.rs (only compiled in builds WITHOUT the std feature).  The harness module itself links
// std so that the crate's hand-written traits can be compared with the real std::io implementations (C18).
extern crate std;
use super::*;
use crate::verif_nd as nd;
use crate::verif_nd::{harness, nd_cover};

// Read for &[u8]: read()
harness! { fn io_slice_read_matches_std() {
    let data: [u8; 8] = nd::any();
    let l: usize = nd::any(); let want: usize = nd::any();
    nd::assume(l <= 8 && want <= 8);
    let mut a: &[u8] = &data[..l];
    let mut b: &[u8] = &data[..l];
    let mut ba = [0u8; 8]; let mut bb = [0u8; 8];
    let ra = Read::read(&mut a, &mut ba[..want]);
    let rb = std::io::Read::read(&mut b, &mut bb[..want]);
    match (ra, rb) {
        (Ok(x), Ok(y)) => {
            assert!(x == y, "read count differs from std");
            assert!(a.len() == b.len(), "remaining source differs from std");
            let i: usize = nd::any(); nd::assume(i < 8);
            assert!(ba[i] == bb[i], "bytes differ from std");
        }
        (ra, rb) => { core::mem::forget(ra); core::mem::forget(rb); assert!(false, "Ok/Err classification differs from std"); }
    }
    nd_cover!(want > l, "short read");
    nd_cover!(want == 1 && l >= 1, "single byte special case");
} }

// Read for &[u8]: read_exact() - what the decoder uses on every source
harness! { fn io_slice_read_exact_matches_std() {
    let data: [u8; 8] = nd::any();
    let l: usize = nd::any(); let want: usize = nd::any();
    nd::assume(l <= 8 && want <= 8);
    let mut a: &[u8] = &data[..l];
    let mut b: &[u8] = &data[..l];
    let mut ba = [0u8; 8]; let mut bb = [0u8; 8];
    let ra = Read::read_exact(&mut a, &mut ba[..want]);
    let rb = std::io::Read::read_exact(&mut b, &mut bb[..want]);
    match (ra, rb) {
        (Ok(()), Ok(())) => {
            assert!(want <= l);
            assert!(a.len() == b.len() && a.len() == l - want, "remaining source differs from std");
            let i: usize = nd::any(); nd::assume(i < want);
            assert!(ba[i] == bb[i] && ba[i] == data[i]);
        }
        (Err(ea), Err(eb)) => {
            assert!(want > l);
            assert!(ea.kind() == ErrorKind::UnexpectedEof, "no_std read_exact must report UnexpectedEof");
            assert!(eb.kind() == std::io::ErrorKind::UnexpectedEof);
            // both leave the source exhausted
            assert!(a.len() == b.len(), "remaining source after a failed read_exact differs from std");
            core::mem::forget(ea); core::mem::forget(eb);
        }
        (ra, rb) => { core::mem::forget(ra); core::mem::forget(rb); assert!(false, "Ok/Err classification differs from std"); }
    }
    nd_cover!(want > l, "eof");
    nd_cover!(want == l && l == 8, "exact");
} }

// &mut R forwarding + Take
harness! { fn io_take_matches_std() {
    let data: [u8; 8] = nd::any();
    let l: usize = nd::any(); let want: usize = nd::any(); let limit: u64 = nd::any();
    nd::assume(l <= 8 && want <= 8);
    let mut a: &[u8] = &data[..l];
    let mut b: &[u8] = &data[..l];
    let mut ba = [0u8; 8]; let mut bb = [0u8; 8];
    let (x, la) = { let mut t = Read::take(&mut a, limit); let r = t.read(&mut ba[..want]); (r, t.limit()) };
    let (y, lb) = { let mut t = std::io::Read::take(&mut b, limit); let r = std::io::Read::read(&mut t, &mut bb[..want]); (r, t.limit()) };
    match (x, y) {
        (Ok(x), Ok(y)) => {
            assert!(x == y, "Take::read count differs from std");
            assert!(la == lb, "Take limit differs from std");
            assert!(a.len() == b.len());
            let i: usize = nd::any(); nd::assume(i < 8);
            assert!(ba[i] == bb[i]);
        }
        (x, y) => { core::mem::forget(x); core::mem::forget(y); assert!(false, "classification differs"); }
    }
    nd_cover!(limit < want as u64 && limit < l as u64, "limit binds");
    nd_cover!(limit == 0, "zero limit");
} }

// Write for Vec<u8> and &mut [u8]: write() and write_all() as the compressor's drain and the decoder's sinks see them
harness! { fn io_write_slice_matches_std() {
    let data: [u8; 6] = nd::any();
    let l: usize = nd::any(); let room: usize = nd::any();
    nd::assume(l <= 6 && room <= 6);
    let mut ta = [0u8; 6]; let mut tb = [0u8; 6];
    let all: bool = nd::any();
    let (ra, rema) = { let mut s: &mut [u8] = &mut ta[..room]; let r = if all { Write::write_all(&mut s, &data[..l]).map(|_| l) } else { Write::write(&mut s, &data[..l]) }; (r, s.len()) };
    let (rb, remb) = { let mut s: &mut [u8] = &mut tb[..room]; let r = if all { std::io::Write::write_all(&mut s, &data[..l]).map(|_| l) } else { std::io::Write::write(&mut s, &data[..l]) }; (r, s.len()) };
    match (ra, rb) {
        (Ok(x), Ok(y)) => { assert!(x == y, "write count differs from std"); }
        (Err(ea), Err(eb)) => {
            assert!(all && l > room);
            assert!(ea.kind() == ErrorKind::WriteAllEof);
            assert!(eb.kind() == std::io::ErrorKind::WriteZero);
            core::mem::forget(ea); core::mem::forget(eb);
        }
        (ra, rb) => { core::mem::forget(ra); core::mem::forget(rb); assert!(false, "Ok/Err classification differs from std"); }
    }
    assert!(rema == remb, "remaining room differs from std");
    let i: usize = nd::any(); nd::assume(i < 6);
    assert!(ta[i] == tb[i], "written bytes differ from std");
    nd_cover!(all && l > room, "write_all hits the end");
    nd_cover!(!all && l > room && room > 0, "short write");
} }

harness! { fn io_write_vec_matches_std() {
    let data: [u8; 4] = nd::any();
    let l: usize = nd::any();
    nd::assume(l <= 4);
    let mut va: alloc::vec::Vec<u8> = alloc::vec::Vec::with_capacity(8);
    let mut vb: std::vec::Vec<u8> = std::vec::Vec::with_capacity(8);
    let ra = Write::write_all(&mut &mut va, &data[..l]);
    let rb = std::io::Write::write_all(&mut &mut vb, &data[..l]);
    assert!(ra.is_ok() && rb.is_ok());
    core::mem::forget(ra); core::mem::forget(rb);
    assert!(va.len() == l && vb.len() == l);
    let i: usize = nd::any(); nd::assume(i < l);
    assert!(va[i] == vb[i] && va[i] == data[i]);
    nd_cover!(l == 4, "all");
} }

// read_exact over a reader that is interrupted and delivers short reads: same bytes as std's default read_exact
struct Flaky<'a> { d: &'a [u8], pos: usize, script: u8 }
impl<'a> Flaky<'a> {
    fn step(&mut self, buf_len: usize) -> Option<usize> {
        let bit = self.script & 1; self.script >>= 1;
        if bit == 1 { return None; } // interrupted
        let avail = self.d.len() - self.pos;
        let n = if buf_len < avail { buf_len } else { avail };
        Some(if n > 1 && self.script & 1 == 1 { 1 } else { n })
    }
}
impl<'a> Read for Flaky<'a> {
    fn read(&mut self, buf: &mut [u8]) -> Result<usize, Error> {
        match self.step(buf.len()) {
            None => Err(Error::from(ErrorKind::Interrupted)),
            Some(n) => { buf[..n].copy_from_slice(&self.d[self.pos..self.pos + n]); self.pos += n; Ok(n) }
        }
    }
}
impl<'a> std::io::Read for Flaky<'a> {
    fn read(&mut self, buf: &mut [u8]) -> std::io::Result<usize> {
        match self.step(buf.len()) {
            None => Err(std::io::Error::from(std::io::ErrorKind::Interrupted)),
            Some(n) => { buf[..n].copy_from_slice(&self.d[self.pos..self.pos + n]); self.pos += n; Ok(n) }
        }
    }
}
harness! { fn io_read_exact_interrupted_matches_std() {
    let data: [u8; 4] = nd::any();
    let l: usize = nd::any(); let want: usize = nd::any(); let script: u8 = nd::any();
    nd::assume(l <= 4 && want <= 4);
    nd::assume(script & 0xF8 == 0); // at most 3 scripted events, then plain behaviour
    let mut a = Flaky { d: &data[..l], pos: 0, script };
    let mut b = Flaky { d: &data[..l], pos: 0, script };
    let mut ba = [0u8; 4]; let mut bb = [0u8; 4];
    let ra = Read::read_exact(&mut a, &mut ba[..want]);
    let rb = std::io::Read::read_exact(&mut b, &mut bb[..want]);
    assert!(ra.is_ok() == rb.is_ok(), "Ok/Err classification differs from std");
    assert!(ra.is_ok() == (want <= l));
    core::mem::forget(ra); core::mem::forget(rb);
    assert!(a.pos == b.pos, "bytes consumed differ from std");
    let i: usize = nd::any(); nd::assume(i < want && i < l);
    assert!(ba[i] == bb[i] && ba[i] == data[i]);
    nd_cover!(script & 1 == 1 && want > 0, "interrupted first");
    nd_cover!(want > l, "eof");
} }
