use super::*;
use crate::verif_nd as nd;
use crate::verif_nd::{harness, nd_cover};

/// a recognisable table: its first code's num_bits carries a marker (1 = "earlier table", 2 = "newer table")
pub(crate) fn marker_table(m: u8) -> HuffmanTable {
    let mut v = Vec::with_capacity(1);
    v.push((0u32, m));
    HuffmanTable { codes: v }
}
pub(crate) fn marker_of(t: &HuffmanTable) -> u8 { if t.codes.is_empty() { 0 } else { t.codes[0].1 } }
