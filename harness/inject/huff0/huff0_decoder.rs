use super::*;
use crate::verif_nd as nd;
use crate::verif_nd::{harness, nd_cover};

// ------------------------------------------------------------------------------------------------ C07 helpers
pub(crate) fn dirty_table(t: &mut HuffmanTable) {
    t.max_num_bits = nd::any();
    t.decode.push(Entry { symbol: nd::any(), num_bits: nd::any() });
    t.weights.push(nd::any());
    t.bits.push(nd::any());
    t.bit_ranks.push(nd::any());
    t.rank_indexes.push(nd::any());
    crate::fse::verif_kani::dirty_table(&mut t.fse_table);
}
pub(crate) fn table_is_fresh(t: &HuffmanTable) -> bool {
    t.max_num_bits == 0 && t.decode.is_empty() && t.weights.is_empty() && t.bits.is_empty() && t.bit_ranks.is_empty()
        && t.rank_indexes.is_empty() && crate::fse::verif_kani::table_is_fresh(&t.fse_table, 255)
}
/// the fields that determine decoding (bit_ranks is scratch space rebuilt by every build)
pub(crate) fn tables_equal(a: &HuffmanTable, b: &HuffmanTable) -> bool {
    if a.max_num_bits != b.max_num_bits || a.decode.len() != b.decode.len() || a.weights.len() != b.weights.len()
        || a.bits.len() != b.bits.len() || a.rank_indexes.len() != b.rank_indexes.len() { return false; }
    let mut i = 0;
    while i < a.decode.len() { if a.decode[i].symbol != b.decode[i].symbol || a.decode[i].num_bits != b.decode[i].num_bits { return false; } i += 1; }
    let mut i = 0;
    while i < a.weights.len() { if a.weights[i] != b.weights[i] { return false; } i += 1; }
    let mut i = 0;
    while i < a.bits.len() { if a.bits[i] != b.bits[i] { return false; } i += 1; }
    let mut i = 0;
    while i < a.rank_indexes.len() { if a.rank_indexes[i] != b.rank_indexes[i] { return false; } i += 1; }
    crate::fse::verif_kani::tables_equal(&a.fse_table, &b.fse_table)
}

// C01/C03: one Huffman decoder step == shift-in model, stays inside the table, for any entry with num_bits <= max_num_bits
harness! { fn huff_next_state_matches_model() {
    const BITS: u8 = 4;
    const SIZE: usize = 16;
    let mut t = HuffmanTable::new();
    t.max_num_bits = BITS;
    let idx: usize = nd::any();
    nd::assume(idx < SIZE);
    let nb: u8 = nd::any(); let sym: u8 = nd::any();
    nd::assume(nb <= BITS);
    let mut k = 0;
    while k < SIZE { t.decode.push(Entry { symbol: if k == idx { sym } else { 0 }, num_bits: if k == idx { nb } else { 0 } }); k += 1; }
    let src: [u8; 3] = nd::any();
    let mut br = BitReaderReversed::new(&src[..]);
    let mut br2 = BitReaderReversed::new(&src[..]);
    let mut d = HuffmanDecoder::new(&t);
    d.state = idx as u64;
    assert!(d.decode_symbol() == sym);
    let used = d.next_state(&mut br);
    assert!(used == nb);
    let new_bits = br2.get_bits(nb);
    assert!(d.state == (((idx as u64) << nb) & (SIZE as u64 - 1)) | new_bits, "state update differs from the shift-in model");
    assert!((d.state as usize) < SIZE, "state leaves the table");
    nd_cover!(nb == BITS, "full width");
    nd_cover!(nb == 0, "zero width");
    core::mem::forget(t);
} }

/// state injection: the canonical table of the prefix code A = '0', B = '10', C = '11' (max_num_bits 2): the decode
/// table is indexed by the next two bits of the stream
pub(crate) fn inject_abc_table(t: &mut HuffmanTable, a: u8, b: u8, c: u8) {
    t.reset();
    t.max_num_bits = 2;
    t.decode.push(Entry { symbol: a, num_bits: 1 });
    t.decode.push(Entry { symbol: a, num_bits: 1 });
    t.decode.push(Entry { symbol: b, num_bits: 2 });
    t.decode.push(Entry { symbol: c, num_bits: 2 });
}
