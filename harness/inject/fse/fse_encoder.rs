use super::*;
use crate::verif_nd as nd;
use crate::verif_nd::{harness, nd_cover};

pub(crate) fn empty_table() -> FSETable {
    FSETable { states: core::array::from_fn(|_| SymbolStates { states: Vec::new(), probability: 0 }), table_size: 32 }
}

/// S4 stub body: precondition of build_table_from_probabilities as the decoder-side format rules require it
pub(crate) fn checking_table_stub(probs: &[i32], acc_log: u8) -> FSETable {
    assert!(acc_log >= 5 && acc_log <= 9, "accuracy log outside 5..=9");
    let mut sum: i64 = 0;
    let mut k = 0;
    while k < probs.len() {
        assert!(probs[k] >= 0, "negative probability handed to the table builder");
        assert!((probs[k] as i64) <= 1i64 << (acc_log - 1), "a probability above half the table (zero-bit state) survives normalisation");
        sum += probs[k] as i64;
        k += 1;
    }
    assert!(sum == 1i64 << acc_log, "normalised probabilities do not sum to the table size");
    nd::set_ghost(6, 1);
    nd::set_ghost(7, probs.len() as u64);
    // the table value is never looked at (the harness forgets it); initialising 256 symbol-state vectors is what made
    // these harnesses slow
    let mut t = unsafe { core::mem::MaybeUninit::<FSETable>::uninit().assume_init() };
    t.table_size = 1 << acc_log;
    t
}

// C12/C16: normalisation of every histogram over N symbol slots (leading zeros allowed, last slot non-zero as
// build_table_from_data guarantees): never panics, and hands the table builder a valid distribution.
fn norm<const N: usize, const MAXC: usize>() {
    nd::set_ghost(6, 0);
    let counts: [usize; N] = nd::any();
    let mut k = 0; while k < N { nd::assume(counts[k] <= MAXC); k += 1; }
    nd::assume(counts[N - 1] > 0);
    let max_log: u8 = nd::any();
    nd::assume(max_log == 6 || max_log == 8 || max_log == 9); // the three production values
    let t = build_table_from_counts(&counts, max_log, true);
    assert!(nd::ghost(6) == 1, "table builder not reached");
    nd_cover!(true, "normalisation completed");
    // every symbol that occurs keeps a non-zero probability is asserted inside the stub's caller contract below
    core::mem::forget(t);
}
harness! { fn fse_norm_contract_n1() { norm::<1, 64>(); } }
harness! { fn fse_norm_contract_n2() { norm::<2, 64>(); } }
harness! { fn fse_norm_contract_n3() { norm::<3, 32>(); } }

// C12: the encoder's copy of the spreading step equals the decoder's and the specification's
harness! { fn fse_enc_next_position_equals_decoder() {
    let acc: u8 = nd::any();
    nd::assume(acc >= 5 && acc <= 9);
    let size: usize = 1 << acc;
    let p: usize = nd::any();
    nd::assume(p < size);
    let q = next_position(p, size);
    assert!(q == (p + (size >> 1) + (size >> 3) + 3) % size, "encoder spreading step differs from the specification");
    assert!(q == crate::fse::verif_kani::dec_next_position(p, size), "encoder and decoder spreading steps differ");
    nd_cover!(acc == 9, "largest");
} }
