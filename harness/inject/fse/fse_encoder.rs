use super::*;
use crate::verif_nd as nd;
use crate::verif_nd::{harness, nd_cover};

pub(crate) fn empty_table() -> FSETable {
    FSETable { states: core::array::from_fn(|_| SymbolStates { states: Vec::new(), probability: 0 }), table_size: 32 }
}

/// S4 stub body: precondition of build_table_from_probabilities as the decoder-side format rules require it
pub(crate) fn checking_table_stub(probs: &[i32], acc_log: u8) -> FSETable {
    assert!(acc_log >= 5 && acc_log <= 9, "accuracy log outside 5..=9");
    let mut sum: i64 = 0;
    let mut k = 0;
    while k < probs.len() {
        assert!(probs[k] >= 0, "negative probability handed to the table builder");
        assert!((probs[k] as i64) <= 1i64 << (acc_log - 1), "a probability above half the table (zero-bit state) survives normalisation");
        sum += probs[k] as i64;
        k += 1;
    }
    assert!(sum == 1i64 << acc_log, "normalised probabilities do not sum to the table size");
    nd::set_ghost(6, 1);
    nd::set_ghost(7, probs.len() as u64);
    // the table value is never looked at (the harness forgets it); initialising 256 symbol-state vectors is what made
    // these harnesses slow
    let mut t = unsafe { core::mem::MaybeUninit::<FSETable>::uninit().assume_init() };
    t.table_size = 1 << acc_log;
    t
}

// C12/C16: normalisation of every histogram over N symbol slots (leading zeros allowed, last slot non-zero as
// build_table_from_data guarantees): never panics, and hands the table builder a valid distribution.
fn norm<const N: usize, const MAXC: usize>() {
    nd::set_ghost(6, 0);
    let counts: [usize; N] = nd::any();
    let mut k = 0; while k < N { nd::assume(counts[k] <= MAXC); k += 1; }
    nd::assume(counts[N - 1] > 0);
    let max_log: u8 = nd::any();
    nd::assume(max_log == 6 || max_log == 8 || max_log == 9); // the three production values
    let t = build_table_from_counts(&counts, max_log, true);
    assert!(nd::ghost(6) == 1, "table builder not reached");
    nd_cover!(true, "normalisation completed");
    // every symbol that occurs keeps a non-zero probability is asserted inside the stub's caller contract below
    core::mem::forget(t);
}
harness! { fn fse_norm_contract_n1() { norm::<1, 64>(); } }
harness! { fn fse_norm_contract_n2() { norm::<2, 64>(); } }
harness! { fn fse_norm_contract_n3() { norm::<3, 32>(); } }

// C12: the encoder's copy of the spreading step equals the decoder's and the specification's
harness! { fn fse_enc_next_position_equals_decoder() {
    let acc: u8 = nd::any();
    nd::assume(acc >= 5 && acc <= 9);
    let size: usize = 1 << acc;
    let p: usize = nd::any();
    nd::assume(p < size);
    let q = next_position(p, size);
    assert!(q == (p + (size >> 1) + (size >> 3) + 3) % size, "encoder spreading step differs from the specification");
    assert!(q == crate::fse::verif_kani::dec_next_position(p, size), "encoder and decoder spreading steps differ");
    nd_cover!(acc == 9, "largest");
} }

// ------------------------------------------------------------------------------------------------ C12: whole tiny tables
// The REAL table builders of both sides on the same distribution, at a scaled-down accuracy log (the builders are generic
// in it; the format's minimum of 5 is enforced elsewhere): for every state of the decoder's table the encoder's table has
// a state of that symbol with the same index, bit count and baseline, and "less than 1" symbols occupy the last cells,
// the first such symbol the very last one (RFC 8878 4.1.1).  Distributions over 3 symbols are case-split.
fn tiny_tables<const ACC: u8, const P0: i32, const P1: i32, const P2: i32>() {
    let probs = [P0, P1, P2];
    let enc = build_table_from_probabilities(&probs, ACC);
    let mut dec = crate::fse::FSETable::new(255);
    match dec.build_from_probabilities(ACC, &probs) { Ok(()) => {}, Err(e) => { core::mem::forget(e); panic!("decoder refuses a valid distribution"); } }
    let size = 1usize << ACC;
    assert!(enc.table_size == size && dec.decode.len() == size);
    let idx: usize = nd::any();
    nd::assume(idx < size);
    let d = dec.decode[idx];
    let es = &enc.states[d.symbol as usize].states;
    let mut found = false;
    let mut k = 0;
    while k < es.len() {
        if es[k].index == idx {
            found = true;
            assert!(es[k].baseline == d.base_line as usize && es[k].num_bits == d.num_bits, "encoder and decoder disagree on bit count or baseline of a state");
        }
        k += 1;
    }
    assert!(found, "encoder and decoder place a symbol in different cells");
    // RFC: less-than-1 symbols from the end of the table backwards, in symbol order
    let mut neg = 0; let mut s = 0;
    while s < 3 { if probs[s] == -1 { neg += 1; assert!(dec.decode[size - neg].symbol == s as u8, "less-than-1 symbols are not placed from the last cell backwards"); } s += 1; }
    nd_cover!(true, "tables built");
    core::mem::forget(enc); core::mem::forget(dec);
}
harness! { fn fse_tiny_tables_two_lessthan1() { tiny_tables::<2, -1, -1, 2>(); } }
harness! { fn fse_tiny_tables_lessthan1_first_and_last() { tiny_tables::<3, -1, 6, -1>(); } }
harness! { fn fse_tiny_tables_non_power_of_two() { tiny_tables::<3, 3, 5, 0>(); } }
