use super::*;
use crate::verif_nd as nd;
use crate::verif_nd::{harness, nd_cover};

pub(crate) fn dec_next_position(p: usize, size: usize) -> usize { next_position(p, size) }
pub(crate) fn dec_calc(total: u32, p: u32, i: u32) -> (u32, u8) { calc_baseline_and_numbits(total, p, i) }

// C12/C01: per-state arithmetic == the specification's rule (RFC 8878 4.1.1: the i-th state of a symbol with p states
// gets nb = L - highbit(p+i) bits and baseline ((p+i) << nb) - 2^L), for every accuracy log 1..=9, every p, every i.
harness! { fn fse_baseline_numbits_matches_reference() {
    let acc: u8 = nd::any();
    nd::assume(acc >= 1 && acc <= 9);
    let size: u32 = 1 << acc;
    let p: u32 = nd::any();
    nd::assume(p >= 1 && p <= size);
    let i: u32 = nd::any();
    nd::assume(i < p);
    let (bl, nb) = calc_baseline_and_numbits(size, p, i);
    let next = p + i;
    let hb = 31 - next.leading_zeros();
    let rnb = acc as u32 - hb;
    let rbl = (next << rnb) - size;
    assert!(nb as u32 == rnb, "number of bits differs from the specification");
    assert!(bl == rbl, "baseline differs from the specification");
    // consequence used by update_state: the next state index stays inside the table
    assert!(bl + (1u32 << nb) <= size);
    nd_cover!(acc == 9 && p == 3 && i == 2, "non power of two");
    nd_cover!(p == size, "single symbol");
} }

// C12: the spreading step is the specification's ((size>>1)+(size>>3)+3) mod size for every legal table size
harness! { fn fse_next_position_matches_reference() {
    let acc: u8 = nd::any();
    nd::assume(acc >= 5 && acc <= 9);
    let size: usize = 1 << acc;
    let p: usize = nd::any();
    nd::assume(p < size);
    let q = next_position(p, size);
    assert!(q == (p + (size >> 1) + (size >> 3) + 3) % size);
    assert!(q < size);
    // odd step => the walk is a permutation of the table
    assert!(((size >> 1) + (size >> 3) + 3) % 2 == 1);
    nd_cover!(acc == 9, "largest");
} }

// C01/C03: one decoder step from ANY table entry that satisfies the table invariant (baseline + 2^bits <= size)
// stays inside the table and consumes exactly num_bits bits.
harness! { fn fse_update_state_stays_in_table() {
    const SIZE: usize = 32;
    let mut t = FSETable::new(35);
    t.accuracy_log = 5;
    let bl: u32 = nd::any(); let nb: u8 = nd::any(); let sym: u8 = nd::any();
    nd::assume(nb <= 5 && (bl as u64) + (1u64 << nb) <= SIZE as u64);
    let idx: usize = nd::any();
    nd::assume(idx < SIZE);
    let mut k = 0;
    while k < SIZE {
        t.decode.push(Entry { base_line: if k == idx { bl } else { 0 }, num_bits: if k == idx { nb } else { 0 }, symbol: if k == idx { sym } else { 0 } });
        k += 1;
    }
    let src: [u8; 4] = nd::any();
    let mut br = BitReaderReversed::new(&src[..]);
    let mut d = FSEDecoder::new(&t);
    d.state = t.decode[idx];
    let before = br.bits_remaining();
    d.update_state(&mut br);
    assert!(before - br.bits_remaining() == nb as isize);
    assert!(d.decode_symbol() == d.state.symbol);
    nd_cover!(nb == 5, "full width");
    core::mem::forget(t);
} }

// ------------------------------------------------------------------------------------------------ C07 helpers
/// put arbitrary leftovers of an earlier frame into every field of a table
pub(crate) fn dirty_table(t: &mut FSETable) {
    t.accuracy_log = nd::any();
    t.symbol_probabilities.push(nd::any());
    t.symbol_counter.push(nd::any());
    t.decode.push(Entry { base_line: nd::any(), num_bits: nd::any(), symbol: nd::any() });
}
/// every field as FSETable::new(max_symbol) leaves it (capacities aside)
pub(crate) fn table_is_fresh(t: &FSETable, max_symbol: u8) -> bool {
    t.max_symbol == max_symbol && t.accuracy_log == 0 && t.symbol_probabilities.is_empty() && t.symbol_counter.is_empty() && t.decode.is_empty()
}
pub(crate) fn tables_equal(a: &FSETable, b: &FSETable) -> bool {
    if a.accuracy_log != b.accuracy_log || a.symbol_probabilities.len() != b.symbol_probabilities.len()
        || a.symbol_counter.len() != b.symbol_counter.len() || a.decode.len() != b.decode.len() { return false; }
    let mut i = 0;
    while i < a.decode.len() {
        if a.decode[i].base_line != b.decode[i].base_line || a.decode[i].num_bits != b.decode[i].num_bits || a.decode[i].symbol != b.decode[i].symbol { return false; }
        i += 1;
    }
    let mut i = 0;
    while i < a.symbol_probabilities.len() { if a.symbol_probabilities[i] != b.symbol_probabilities[i] { return false; } i += 1; }
    let mut i = 0;
    while i < a.symbol_counter.len() { if a.symbol_counter[i] != b.symbol_counter[i] { return false; } i += 1; }
    true
}

/// a two-state table (accuracy log 1) whose states carry the given symbols; each state reads 1 bit with baseline 0,
/// so every next state is in the table (state-injection for the sequence decoder harnesses)
pub(crate) fn inject_two_state_table(t: &mut FSETable, s0: u8, s1: u8) {
    t.reset();
    t.accuracy_log = 1;
    t.decode.push(Entry { base_line: 0, num_bits: 1, symbol: s0 });
    t.decode.push(Entry { base_line: 0, num_bits: 1, symbol: s1 });
}
