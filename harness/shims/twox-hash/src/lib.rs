//! Stand-in for `twox_hash::XxHash64` used by the C08 harnesses: same API subset as the crate uses
//! (`with_seed`, `core::hash::Hasher::{write, finish}`), but the state is (number of bytes hashed, the bytes packed into
//! a u64 by `acc = rotl(acc, 8) ^ byte`).  For at most 8 hashed bytes the pair (len, acc) determines the byte string
//! and its order exactly, so a harness can decide *which bytes were hashed, in which order, since which reset* with two
//! scalar comparisons - XXH64 itself is trusted.  (A byte log array made every move of the decoder state 40 fields
//! wider in CBMC's field-sensitive encoding and tripled the symbolic-execution time.)
#![no_std]

#[derive(Clone)]
pub struct XxHash64 {
    pub seed: u64,
    pub acc: u64,
    pub len: usize,
}

impl XxHash64 {
    pub fn with_seed(seed: u64) -> Self {
        XxHash64 { seed, acc: 0, len: 0 }
    }
}

/// (len, acc) of a byte string - what the shim's state must be after hashing exactly these bytes in this order
pub fn reference_state(bytes: &[u8]) -> (usize, u64) {
    let mut acc: u64 = 0;
    let mut i = 0;
    while i < bytes.len() {
        acc = acc.rotate_left(8) ^ (bytes[i] as u64);
        i += 1;
    }
    (bytes.len(), acc)
}

/// what `finish` returns for a given state
pub fn reference_finish(seed: u64, len: usize, acc: u64) -> u64 {
    (acc ^ seed).rotate_left(17) ^ 0x9E37_79B9_7F4A_7C15 ^ ((len as u64) << 3)
}

impl core::hash::Hasher for XxHash64 {
    fn write(&mut self, bytes: &[u8]) {
        let mut i = 0;
        while i < bytes.len() {
            self.acc = self.acc.rotate_left(8) ^ (bytes[i] as u64);
            self.len += 1;
            i += 1;
        }
    }
    fn finish(&self) -> u64 {
        reference_finish(self.seed, self.len, self.acc)
    }
}
