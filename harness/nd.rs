// Nondeterminism shim shared by every injected harness module.
//
//   cfg(kani)          -> kani::any / kani::assume / kani::cover!  (the solver quantifies)
//   cfg(verif_replay)  -> values are popped, in execution order, from the byte vectors that
//                         Kani's concrete playback printed for a counterexample; the same
//                         harness function then runs natively against the real code.
//
// Splice stubs (harness/stubs.toml) are switched on per harness with `stubs(mask)`; the spliced
// early-return in the real function consults `stub_on(bit)`.  A concrete static set at the very
// start of a harness is constant-propagated by CBMC, so an inactive stub costs nothing.
#![allow(warnings)]

pub const S1_FIXED_ALLOC: u32 = 1 << 0;
pub const S2_NO_COMPRESSED: u32 = 1 << 1;
pub const S4_BUILD_TABLE: u32 = 1 << 3;
pub const S5_COMPRESS_BLOCK: u32 = 1 << 4;
pub const S6_DEFAULT_TABLES: u32 = 1 << 5;
pub const S9_DECODE_LITERALS_GUARD: u32 = 1 << 6;
pub const S10_DICT_TABLES: u32 = 1 << 7;
pub const S11_EXEC_SINK: u32 = 1 << 8;
pub const S12_COPY_CONTRACT: u32 = 1 << 9;
pub const S13_EFW_MODEL: u32 = 1 << 10;

pub static mut STUB_MASK: u32 = 0;
/// scratch word a stub may use to pick its behaviour (e.g. the fixed capacity for S1)
pub static mut STUB_ARG: [usize; 4] = [0; 4];
/// ghost flags/counters stubs may set for the harness to read back
pub static mut GHOST: [u64; 8] = [0; 8];

#[inline(always)]
pub fn stubs(mask: u32) {
    unsafe { STUB_MASK = mask; }
}
#[inline(always)]
pub fn stub_on(bit: u32) -> bool {
    unsafe { STUB_MASK & bit != 0 }
}
#[inline(always)]
pub fn stub_arg(i: usize) -> usize {
    unsafe { STUB_ARG[i] }
}
#[inline(always)]
pub fn set_stub_arg(i: usize, v: usize) {
    unsafe { STUB_ARG[i] = v; }
}
#[inline(always)]
pub fn ghost(i: usize) -> u64 {
    unsafe { GHOST[i] }
}
#[inline(always)]
pub fn set_ghost(i: usize, v: u64) {
    unsafe { GHOST[i] = v; }
}

// ------------------------------------------------------------------ kani side
#[cfg(kani)]
pub trait Nd: kani::Arbitrary {}
#[cfg(kani)]
impl<T: kani::Arbitrary> Nd for T {}

#[cfg(kani)]
#[inline(always)]
pub fn any<T: Nd>() -> T {
    kani::any()
}
#[cfg(kani)]
#[inline(always)]
pub fn assume(c: bool) {
    kani::assume(c)
}

/// end this path here (everything after it is outside the claim of the harness)
#[cfg(kani)]
#[inline(always)]
pub fn stop() -> ! {
    kani::assume(false);
    loop {}
}

#[cfg(kani)]
macro_rules! nd_cover {
    ($c:expr, $m:literal) => {
        kani::cover!($c, $m)
    };
}

// ---------------------------------------------------------------- replay side
#[cfg(all(verif_replay, not(kani)))]
mod replay {
    extern crate std;
    use std::vec::Vec;
    pub static mut VALS: Vec<Vec<u8>> = Vec::new();
    pub static mut NEXT: usize = 0;
    /// 0: recorded values; 1..: generated values (fallback when Kani's playback could not print the trace values)
    pub static mut PATTERN: u32 = 0;
    pub static mut GEN: u64 = 0;

    fn lcg() -> u64 {
        unsafe {
            GEN = GEN.wrapping_mul(6364136223846793005).wrapping_add(1442695040888963407 ^ ((PATTERN as u64) << 32));
            GEN >> 33
        }
    }
    /// one byte of symbolic data (payload bytes, flags)
    fn gen_byte() -> u8 {
        unsafe {
            match PATTERN {
                1 => 0,
                2 => { GEN = GEN.wrapping_add(1); GEN as u8 }
                3 => 0xFF,
                _ => lcg() as u8,
            }
        }
    }
    /// a multi-byte integer (lengths, counts, indices): small values, harness assumptions usually bound them tightly
    fn gen_small() -> u64 {
        unsafe {
            match PATTERN {
                1 => 0,
                2 => { GEN = GEN.wrapping_add(1); GEN % 5 }
                3 => 1,
                p => { let m = [2u64, 3, 5, 7, 8, 9, 13, 17][(p as usize) % 8]; lcg() % m }
            }
        }
    }

    pub fn pop(want: usize) -> Vec<u8> {
        unsafe {
            if PATTERN != 0 {
                let mut v = Vec::new();
                if want == 1 { v.push(gen_byte()); return v; }
                let x = gen_small().to_le_bytes();
                let mut i = 0;
                while i < want { v.push(if i < 8 { x[i] } else { 0 }); i += 1; }
                return v;
            }
            if NEXT >= VALS.len() {
                std::eprintln!("ND-EXHAUSTED: harness asked for value #{} but only {} were recorded", NEXT, VALS.len());
                std::process::exit(3);
            }
            let v = VALS[NEXT].clone();
            NEXT += 1;
            if v.len() != want {
                std::eprintln!("ND-SIZE-MISMATCH: value #{} has {} bytes, harness wants {}", NEXT - 1, v.len(), want);
                std::process::exit(3);
            }
            v
        }
    }
}

#[cfg(all(verif_replay, not(kani)))]
#[no_mangle]
pub fn verif_replay_set_values(v: alloc::vec::Vec<alloc::vec::Vec<u8>>) {
    unsafe {
        replay::VALS = v;
        replay::NEXT = 0;
    }
}
#[cfg(all(verif_replay, not(kani)))]
#[no_mangle]
pub fn verif_replay_set_pattern(p: u32) {
    unsafe { replay::PATTERN = p; replay::GEN = 0; }
}

#[cfg(all(verif_replay, not(kani)))]
pub trait Nd: Sized {
    fn nd() -> Self;
}
#[cfg(all(verif_replay, not(kani)))]
macro_rules! nd_int {
    ($($t:ty),*) => {$(
        impl Nd for $t {
            fn nd() -> Self {
                let b = replay::pop(core::mem::size_of::<$t>());
                let mut a = [0u8; core::mem::size_of::<$t>()];
                a.copy_from_slice(&b);
                <$t>::from_le_bytes(a)
            }
        }
    )*};
}
#[cfg(all(verif_replay, not(kani)))]
nd_int!(u8, u16, u32, u64, u128, usize, i8, i16, i32, i64, isize);
#[cfg(all(verif_replay, not(kani)))]
impl Nd for bool {
    fn nd() -> Self {
        replay::pop(1)[0] & 1 == 1
    }
}
// kani::any::<[T; N]>() draws the elements one by one: N recorded values
#[cfg(all(verif_replay, not(kani)))]
impl<T: Nd + Copy + Default, const N: usize> Nd for [T; N] {
    fn nd() -> Self {
        let mut a = [T::default(); N];
        let mut i = 0;
        while i < N {
            a[i] = T::nd();
            i += 1;
        }
        a
    }
}

#[cfg(all(verif_replay, not(kani)))]
pub fn any<T: Nd>() -> T {
    T::nd()
}
#[cfg(all(verif_replay, not(kani)))]
pub fn assume(c: bool) {
    extern crate std;
    if !c {
        std::eprintln!("ASSUME-FAILED: the recorded values do not satisfy a harness assumption");
        std::process::exit(4);
    }
}
#[cfg(all(verif_replay, not(kani)))]
pub fn stop() -> ! {
    extern crate std;
    std::println!("REPLAY-COMPLETED-WITHOUT-PANIC");
    std::process::exit(0);
}
#[cfg(all(verif_replay, not(kani)))]
macro_rules! nd_cover {
    ($c:expr, $m:literal) => {
        let _ = $c;
    };
}

pub(crate) use nd_cover;

/// Declares one harness: a Kani proof under cfg(kani), an exported plain function under
/// cfg(verif_replay) that the generated replay binary calls by symbol name.
macro_rules! harness {
    ($(#[$m:meta])* fn $name:ident() $body:block) => {
        #[cfg_attr(kani, kani::proof)]
        $(#[$m])*
        #[cfg_attr(all(verif_replay, not(kani)), no_mangle)]
        pub fn $name() $body
    };
}
pub(crate) use harness;
