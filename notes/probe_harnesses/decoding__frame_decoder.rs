// probe harness appended to ruzstd/src/decoding/frame_decoder.rs during the design phase (scratch copy only)
#[cfg(kani)]
#[allow(warnings)]
mod verif_kani {
    use super::*;

    #[kani::proof]
    #[kani::unwind(20)]
    fn header_only_any_bytes() {
        let buf: [u8; 18] = kani::any();
        let len: usize = kani::any();
        kani::assume(len <= 18);
        let mut src = &buf[..len];
        let r = frame::read_frame_header(&mut src);
        if let Ok((h, n)) = r {
            assert!(n as usize <= len);
            assert!(n as usize + src.len() == len);
            let _ = h.window_size();
        }
    }

    fn cut_decompress_block<R: Read>(
        _s: &mut crate::decoding::block_decoder::BlockDecoder,
        _header: &crate::blocks::block::BlockHeader,
        _workspace: &mut DecoderScratch,
        _source: R,
    ) -> Result<(), crate::decoding::errors::DecompressBlockError> {
        Err(crate::decoding::errors::DecompressBlockError::MalformedSectionHeader { expected_len: 0, remaining_bytes: 0 })
    }

    #[kani::proof]
    #[kani::unwind(20)]
    #[kani::stub(crate::decoding::block_decoder::BlockDecoder::decompress_block, cut_decompress_block)]
    fn decode_all_raw_rle_small() {
        const N: usize = 14;
        let buf: [u8; N] = kani::any();
        let len: usize = kani::any();
        kani::assume(len <= N);
        kani::assume(buf[0] == 0x28 && buf[1] == 0xB5 && buf[2] == 0x2F && buf[3] == 0xFD);
        // single segment, fcs 1 byte: descriptor 0x20
        kani::assume(buf[4] == 0x20);
        // block type != compressed
        kani::assume((buf[6] >> 1) & 3 != 2);
        let mut dec = FrameDecoder::new();
        let mut out = [0u8; 8];
        let _ = dec.decode_all(&buf[..len], &mut out);
    }

    #[kani::proof]
    #[kani::unwind(9)]
    #[kani::stub(crate::decoding::block_decoder::BlockDecoder::decompress_block, cut_decompress_block)]
    fn driver_steps_raw_rle() {
        const N: usize = 12;
        let buf: [u8; N] = kani::any();
        let len: usize = kani::any();
        kani::assume(len <= N);
        kani::assume(buf[0] == 0x28 && buf[1] == 0xB5 && buf[2] == 0x2F && buf[3] == 0xFD);
        kani::assume(buf[4] == 0x20); // single segment, 1 byte fcs, no checksum
        kani::assume(buf[5] <= 4);
        let mut src = &buf[..len];
        let mut dec = FrameDecoder::new();
        if dec.reset(&mut src).is_err() { return; }
        let mut steps = 0;
        while steps < 2 && !dec.is_finished() {
            steps += 1;
            if dec.decode_blocks(&mut src, BlockDecodingStrategy::UptoBlocks(1)).is_err() { return; }
            assert!(dec.bytes_read_from_source() as usize + src.len() == len);
        }
        let mut out = [0u8; 16];
        let _ = dec.read(&mut out);
    }

    const FRAME: [u8; 51] = [40, 181, 47, 253, 4, 56, 53, 1, 0, 204, 0, 0, 97, 98, 99, 100, 101, 102, 103, 104, 95, 120, 121, 122, 4, 168, 16, 227, 251, 16, 124, 34, 31, 16, 22, 198, 231, 251, 159, 1, 203, 24, 158, 92, 129, 206, 140, 107, 144, 84, 58];

    fn template(symbolic_literals: bool) {
        let mut f = FRAME;
        if symbolic_literals {
            let lits: [u8; 12] = kani::any();
            let mut k = 0;
            while k < 12 { f[12 + k] = lits[k]; k += 1; }
        }
        let mut dec = FrameDecoder::new();
        let mut out = [0u8; 100];
        let n = dec.decode_all(&f, &mut out).unwrap();
        assert!(n == 93);
        let i: usize = kani::any();
        kani::assume(i < 93);
        let want = if i < 90 { f[12 + (i % 9)] } else { f[12 + 9 + (i - 90)] };
        assert!(out[i] == want);
    }

    #[kani::proof]
    #[kani::unwind(130)]
    fn template_concrete() { template(false); }

    #[kani::proof]
    #[kani::unwind(130)]
    fn template_symbolic_literals() { template(true); }

    #[kani::proof]
    #[kani::unwind(9)]
    #[kani::stub(crate::decoding::block_decoder::BlockDecoder::decompress_block, cut_decompress_block)]
    #[kani::stub(crate::decoding::ringbuffer::RingBuffer::reserve_amortized, crate::decoding::ringbuffer::verif_kani::fixed_first_alloc)]
    fn driver2_raw_rle() {
        const N: usize = 14;
        let buf: [u8; N] = kani::any();
        let len: usize = kani::any();
        kani::assume(len <= N);
        kani::assume(buf[0] == 0x28 && buf[1] == 0xB5 && buf[2] == 0x2F && buf[3] == 0xFD);
        kani::assume(buf[4] == 0x20); // single segment, 1 byte fcs, no checksum
        kani::assume(buf[5] <= 16);
        // first block: size field <= 8
        kani::assume(buf[7] == 0 && buf[8] == 0 && (buf[6] >> 3) <= 8);
        let mut src = &buf[..len];
        let mut dec = FrameDecoder::new();
        if dec.reset(&mut src).is_err() { return; }
        let r = dec.decode_blocks(&mut src, BlockDecodingStrategy::UptoBlocks(1));
        if r.is_err() { return; }
        assert!(dec.bytes_read_from_source() as usize + src.len() == len);
        let mut out = [0u8; 16];
        let n = dec.read(&mut out).unwrap();
        if dec.is_finished() {
            let bs = (buf[6] >> 3) as usize;
            assert!(n == bs);
            let i: usize = kani::any();
            kani::assume(i < n);
            let want = if (buf[6] >> 1) & 3 == 1 { buf[9] } else { buf[9 + i] };
            assert!(out[i] == want);
        }
    }

    #[kani::proof]
    #[kani::unwind(9)]
    #[kani::stub(crate::decoding::block_decoder::BlockDecoder::decompress_block, cut_decompress_block)]
    #[kani::stub(crate::decoding::ringbuffer::RingBuffer::reserve_amortized, crate::decoding::ringbuffer::verif_kani::fixed_first_alloc)]
    fn fd_baseline_reset_only() {
        let hdr: [u8; 6] = [0x28, 0xB5, 0x2F, 0xFD, 0x20, 0x04];
        let mut dec = FrameDecoder::new();
        let mut src = &hdr[..];
        dec.reset(&mut src).unwrap();
        assert!(dec.content_size() == 4);
        core::mem::forget(dec);
    }

    #[kani::proof]
    #[kani::unwind(9)]
    #[kani::stub(crate::decoding::block_decoder::BlockDecoder::decompress_block, cut_decompress_block)]
    #[kani::stub(crate::decoding::ringbuffer::RingBuffer::reserve_amortized, crate::decoding::ringbuffer::verif_kani::fixed_first_alloc)]
    fn fd_baseline_one_raw_block() {
        let mut f: [u8; 13] = [0x28, 0xB5, 0x2F, 0xFD, 0x20, 0x04, 0x21, 0, 0, 1, 2, 3, 4];
        let body: [u8; 4] = kani::any();
        f[9] = body[0]; f[10] = body[1]; f[11] = body[2]; f[12] = body[3];
        let mut dec = FrameDecoder::new();
        let mut src = &f[..];
        dec.reset(&mut src).unwrap();
        let fin = dec.decode_blocks(&mut src, BlockDecodingStrategy::UptoBlocks(1)).unwrap();
        assert!(fin);
        assert!(dec.bytes_read_from_source() == 13);
        let mut out = [0u8; 8];
        let n = dec.read(&mut out).unwrap();
        assert!(n == 4);
        assert!(out[0] == body[0] && out[3] == body[3]);
        core::mem::forget(dec);
    }

    #[kani::proof]
    #[kani::unwind(9)]
    #[kani::stub(crate::decoding::block_decoder::BlockDecoder::decompress_block, cut_decompress_block)]
    #[kani::stub(crate::decoding::ringbuffer::RingBuffer::reserve_amortized, crate::decoding::ringbuffer::verif_kani::fixed_first_alloc)]
    fn fd_skeleton_rle3_raw2_truncated_sched() {
        // skeleton: window 1KiB, no checksum; block1 RLE x3 (not last), block2 raw 2 bytes (last)
        let mut f: [u8; 15] = [0x28, 0xB5, 0x2F, 0xFD, 0x00, 0x00, (3 << 3) | (1 << 1), 0, 0, 0xAA, (2 << 3) | 1, 0, 0, 1, 2];
        let pay: [u8; 3] = kani::any();
        f[9] = pay[0]; f[13] = pay[1]; f[14] = pay[2];
        let cut: usize = kani::any();
        kani::assume(cut <= 15);
        let mut src = &f[..cut];
        let mut dec = FrameDecoder::new();
        let r0 = dec.reset(&mut src);
        if cut < 6 { assert!(r0.is_err()); core::mem::forget(r0); core::mem::forget(dec); return; }
        match r0 { Ok(()) => {}, Err(e) => { core::mem::forget(e); assert!(false); } }
        let one_by_one: bool = kani::any();
        let mut out = [0u8; 8];
        let mut n = 0usize;
        let mut failed = false;
        if one_by_one {
            let mut k = 0;
            while k < 2 && !failed && !dec.is_finished() {
                match dec.decode_blocks(&mut src, BlockDecodingStrategy::UptoBlocks(1)) { Ok(_) => {}, Err(e) => { failed = true; core::mem::forget(e); } }
                n += dec.read(&mut out[n..]).unwrap();
                k += 1;
            }
        } else {
            match dec.decode_blocks(&mut src, BlockDecodingStrategy::All) { Ok(_) => {}, Err(e) => { failed = true; core::mem::forget(e); } }
            n += dec.read(&mut out[n..]).unwrap();
        }
        if cut == 15 {
            assert!(!failed && dec.is_finished());
            assert!(dec.bytes_read_from_source() == 15);
        } else {
            assert!(failed && !dec.is_finished());
        }
        // delivered bytes are a prefix of the true content
        let want = [pay[0], pay[0], pay[0], pay[1], pay[2]];
        assert!(n <= 5);
        if cut == 15 { n += dec.read(&mut out[n..]).unwrap(); assert!(n == 5); }
        let i: usize = kani::any();
        kani::assume(i < n);
        assert!(out[i] == want[i]);
        core::mem::forget(dec);
    }

    fn skeleton_cut<const CUT: usize, const ONE_BY_ONE: bool>() {
        let mut f: [u8; 15] = [0x28, 0xB5, 0x2F, 0xFD, 0x00, 0x00, (3 << 3) | (1 << 1), 0, 0, 0xAA, (2 << 3) | 1, 0, 0, 1, 2];
        let pay: [u8; 3] = kani::any();
        f[9] = pay[0]; f[13] = pay[1]; f[14] = pay[2];
        let mut src = &f[..CUT];
        let mut dec = FrameDecoder::new();
        let r0 = dec.reset(&mut src);
        if CUT < 6 { assert!(r0.is_err()); return; }
        r0.unwrap();
        let mut out = [0u8; 8];
        let mut n = 0usize;
        let mut failed = false;
        if ONE_BY_ONE {
            let mut k = 0;
            while k < 2 && !failed && !dec.is_finished() {
                match dec.decode_blocks(&mut src, BlockDecodingStrategy::UptoBlocks(1)) { Ok(_) => {}, Err(e) => { failed = true; core::mem::forget(e); } }
                n += dec.read(&mut out[n..]).unwrap();
                k += 1;
            }
        } else {
            match dec.decode_blocks(&mut src, BlockDecodingStrategy::All) { Ok(_) => {}, Err(_) => failed = true }
            n += dec.read(&mut out[n..]).unwrap();
        }
        if CUT == 15 { assert!(!failed && dec.is_finished()); assert!(dec.bytes_read_from_source() == 15); }
        else { assert!(failed && !dec.is_finished()); }
        let want = [pay[0], pay[0], pay[0], pay[1], pay[2]];
        assert!(n <= 5);
        if CUT == 15 { n += dec.read(&mut out[n..]).unwrap(); assert!(n == 5); }
        let i: usize = kani::any();
        kani::assume(i < n);
        assert!(out[i] == want[i]);
        core::mem::forget(dec);
    }
    #[kani::proof]
    #[kani::unwind(9)]
    #[kani::stub(crate::decoding::block_decoder::BlockDecoder::decompress_block, cut_decompress_block)]
    #[kani::stub(crate::decoding::ringbuffer::RingBuffer::reserve_amortized, crate::decoding::ringbuffer::verif_kani::fixed_first_alloc)]
    fn skeleton_cut12_one_by_one() { skeleton_cut::<12, true>(); }
    #[kani::proof]
    #[kani::unwind(9)]
    #[kani::stub(crate::decoding::block_decoder::BlockDecoder::decompress_block, cut_decompress_block)]
    #[kani::stub(crate::decoding::ringbuffer::RingBuffer::reserve_amortized, crate::decoding::ringbuffer::verif_kani::fixed_first_alloc)]
    fn skeleton_cut15_all() { skeleton_cut::<15, false>(); }

    // C06/F9: decode_from_to with the checksum arriving separately
    #[kani::proof]
    #[kani::unwind(9)]
    #[kani::stub(crate::decoding::block_decoder::BlockDecoder::decompress_block, cut_decompress_block)]
    #[kani::stub(crate::decoding::ringbuffer::RingBuffer::reserve_amortized, crate::decoding::ringbuffer::verif_kani::fixed_first_alloc)]
    fn from_to_checksum_split() {
        // single segment fcs=2, checksum flag; one raw block of 2 bytes (last); 4 byte checksum
        let mut f: [u8; 15] = [0x28, 0xB5, 0x2F, 0xFD, 0x24, 0x02, (2 << 3) | 1, 0, 0, 7, 8, 1, 2, 3, 4];
        let pay: [u8; 6] = kani::any();
        f[9] = pay[0]; f[10] = pay[1]; f[11] = pay[2]; f[12] = pay[3]; f[13] = pay[4]; f[14] = pay[5];
        let mut dec = FrameDecoder::new();
        let mut out = [0u8; 8];
        let (r1, w1) = dec.decode_from_to(&f[..11], &mut out).unwrap();
        assert!(r1 == 11 && w1 == 2);
        let (r2, w2) = dec.decode_from_to(&f[11..13], &mut out[w1..]).unwrap();
        assert!(r2 <= 2);
        core::mem::forget(dec);
    }

    // C11 ordering: symbolic window descriptor + limit, first use
    #[kani::proof]
    #[kani::unwind(9)]
    #[kani::stub(crate::decoding::ringbuffer::RingBuffer::reserve_amortized, crate::decoding::ringbuffer::verif_kani::fixed_first_alloc)]
    fn window_limit_first_use() {
        let wd: u8 = kani::any();
        let f: [u8; 6] = [0x28, 0xB5, 0x2F, 0xFD, 0x00, wd];
        let limit: u64 = kani::any();
        let mut dec = FrameDecoder::new();
        dec.set_max_window_size(limit);
        let eff = dec.max_window_size();
        assert!(eff == if limit < crate::common::MAX_WINDOW_SIZE { limit } else { crate::common::MAX_WINDOW_SIZE });
        let exp = (wd >> 3) as u64; let man = (wd & 7) as u64;
        let base = 1u64 << (10 + exp);
        let win = base + (base / 8) * man;
        let r = dec.reset(&f[..]);
        match r {
            Ok(()) => { assert!(win <= eff); }
            Err(FrameDecoderError::WindowSizeTooBig { requested, max }) => { assert!(requested == win && max == eff && win > eff); }
            Err(_) => { assert!(win >= crate::common::MAX_WINDOW_SIZE); }
        }
        core::mem::forget(dec);
    }
}
