// probe harness appended to ruzstd/src/decoding/block_decoder.rs during the design phase (scratch copy only)
#[cfg(kani)]
#[allow(warnings)]
mod verif_kani {
    use super::*;
    #[kani::proof]
    #[kani::unwind(5)]
    fn block_header_all_2p24() {
        let b: [u8; 3] = kani::any();
        let mut d = new();
        let r = d.read_block_header(&b[..]);
        let v = (b[0] as u32) | (b[1] as u32) << 8 | (b[2] as u32) << 16;
        let ty = (v >> 1) & 3; let size = v >> 3;
        match r {
            Ok((h, n)) => {
                assert!(n == 3);
                assert!(ty != 3 && size <= 128 * 1024);
                assert!(h.last_block == (v & 1 == 1));
                match h.block_type {
                    BlockType::Raw => { assert!(ty == 0 && h.content_size == size && h.decompressed_size == size); }
                    BlockType::RLE => { assert!(ty == 1 && h.content_size == 1 && h.decompressed_size == size); }
                    BlockType::Compressed => { assert!(ty == 2 && h.content_size == size); }
                    BlockType::Reserved => { assert!(false); }
                }
            }
            Err(_) => { assert!(ty == 3 || size > 128 * 1024); }
        }
    }

    fn guard_decode_literals(
        section: &LiteralsSection,
        _scratch: &mut crate::decoding::scratch::HuffmanScratch,
        _source: &[u8],
        _target: &mut alloc::vec::Vec<u8>,
    ) -> Result<u32, crate::decoding::errors::DecompressLiteralsError> {
        assert!(section.regenerated_size <= MAX_BLOCK_SIZE, "literals section regenerates more than a block");
        Err(crate::decoding::errors::DecompressLiteralsError::MissingCompressedSize)
    }
    #[kani::proof]
    #[kani::unwind(10)]
    #[kani::stub(crate::decoding::literals_section_decoder::decode_literals, guard_decode_literals)]
    #[kani::stub(crate::decoding::ringbuffer::RingBuffer::reserve_amortized, crate::decoding::ringbuffer::verif_kani::fixed_first_alloc)]
    fn literals_regenerated_size_capped() {
        let content: [u8; 8] = kani::any();
        let mut ws = DecoderScratch::new(1024);
        let mut d = new();
        let hdr = BlockHeader { last_block: true, block_type: BlockType::Compressed, decompressed_size: 0, content_size: 8 };
        let r = d.decompress_block(&hdr, &mut ws, &content[..]);
        core::mem::forget(ws);
    }
}
