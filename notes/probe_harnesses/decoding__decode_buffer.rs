// probe harness appended to ruzstd/src/decoding/decode_buffer.rs during the design phase (scratch copy only)
#[cfg(kani)]
#[allow(warnings)]
mod verif_kani {
    use super::*;
    use crate::decoding::ringbuffer::verif_kani::fixed_first_alloc;

    fn mk(l: usize, data: &[u8; 8]) -> DecodeBuffer {
        let mut db = DecodeBuffer::new(4);
        db.buffer.reserve(1); // fixed 65-byte allocation through the stub
        db.push(&data[..l]);
        db
    }

    #[kani::proof]
    #[kani::unwind(10)]
    #[kani::stub(crate::decoding::ringbuffer::RingBuffer::reserve_amortized, fixed_first_alloc)]
    fn db_repeat_step() {
        let data: [u8; 8] = kani::any();
        let l: usize = kani::any();
        kani::assume(l >= 1 && l <= 8);
        let mut db = mk(l, &data);
        let off: usize = kani::any();
        let ml: usize = kani::any();
        kani::assume(off >= 1 && off <= l && ml <= 8);
        db.repeat(off, ml).unwrap();
        assert!(db.len() == l + ml);
        let i: usize = kani::any();
        kani::assume(i < l + ml);
        let want = if i < l { data[i] } else { data[l - off + ((i - l) % off)] };
        let (s1, s2) = db.buffer.as_slices();
        let got = if i < s1.len() { s1[i] } else { s2[i - s1.len()] };
        assert!(got == want);
    }

    struct Sink { buf: [u8; 16], n: usize, accept: usize, fail_after: bool }
    impl Write for Sink {
        fn write(&mut self, b: &[u8]) -> Result<usize, Error> {
            if self.accept == 0 {
                if self.fail_after { return Err(Error::from(crate::io::ErrorKind::WouldBlock)); }
                return Ok(0);
            }
            let k = if b.len() < self.accept { b.len() } else { self.accept };
            let mut j = 0; while j < k { self.buf[self.n + j] = b[j]; j += 1; }
            self.n += k; self.accept -= k;
            Ok(k)
        }
        fn flush(&mut self) -> Result<(), Error> { Ok(()) }
    }

    #[kani::proof]
    #[kani::unwind(10)]
    #[kani::stub(crate::decoding::ringbuffer::RingBuffer::reserve_amortized, fixed_first_alloc)]
    fn db_drain_partial_sink() {
        let data: [u8; 8] = kani::any();
        let l: usize = kani::any();
        kani::assume(l >= 1 && l <= 8);
        let mut db = mk(l, &data);
        let accept: usize = kani::any();
        kani::assume(accept <= 8);
        let mut sink = Sink { buf: [0; 16], n: 0, accept, fail_after: kani::any() };
        let r = db.drain_to_writer(&mut sink);
        let taken = if accept < l { accept } else { l };
        assert!(sink.n == taken);
        assert!(db.len() == l - taken);
        if let Ok(n) = r { assert!(n == taken); }
        let i: usize = kani::any();
        kani::assume(i < l);
        if i < taken { assert!(sink.buf[i] == data[i]); }
        else {
            let (s1, s2) = db.buffer.as_slices();
            let k = i - taken;
            let got = if k < s1.len() { s1[k] } else { s2[k - s1.len()] };
            assert!(got == data[i]);
        }
    }

    #[kani::proof]
    #[kani::unwind(6)]
    #[kani::stub(crate::decoding::ringbuffer::RingBuffer::reserve_amortized, fixed_first_alloc)]
    fn db_repeat_step_small() {
        let data: [u8; 8] = kani::any();
        let l: usize = kani::any();
        kani::assume(l >= 1 && l <= 4);
        let mut db = mk(l, &data);
        let off: usize = kani::any();
        let ml: usize = kani::any();
        kani::assume(off >= 1 && off <= l && ml <= 4);
        db.repeat(off, ml).unwrap();
        assert!(db.len() == l + ml);
        let i: usize = kani::any();
        kani::assume(i < l + ml);
        let want = if i < l { data[i] } else { data[l - off + ((i - l) % off)] };
        let (s1, s2) = db.buffer.as_slices();
        let got = if i < s1.len() { s1[i] } else { s2[i - s1.len()] };
        assert!(got == want);
    }

    #[cfg(feature = "hash")]
    static mut LOGN: usize = 0;
    #[cfg(feature = "hash")]
    fn log_write(_h: &mut twox_hash::XxHash64, bytes: &[u8]) { unsafe { LOGN += bytes.len(); } }
    #[cfg(feature = "hash")]
    #[kani::proof]
    #[kani::unwind(10)]
    #[kani::stub(crate::decoding::ringbuffer::RingBuffer::reserve_amortized, fixed_first_alloc)]
    #[kani::stub(<twox_hash::XxHash64 as core::hash::Hasher>::write, log_write)]
    fn hash_stub_trial() {
        let data: [u8; 8] = kani::any();
        let mut db = mk(3, &data);
        let v = db.drain();
        assert!(v.len() == 3);
        unsafe { assert!(LOGN == 3); }
    }
}
