// probe harness appended to ruzstd/src/fse/fse_encoder.rs during the design phase (scratch copy only)
#[cfg(kani)]
#[allow(warnings)]
pub(crate) mod verif_kani {
    use super::*;
    static mut SEEN: bool = false;
    pub(crate) fn empty() -> FSETable { FSETable { states: core::array::from_fn(|_| SymbolStates { states: Vec::new(), probability: 0 }), table_size: 0 } }
    fn checking_stub(probs: &[i32], acc_log: u8) -> FSETable {
        let mut sum: i64 = 0;
        let mut k = 0;
        while k < probs.len() { assert!(probs[k] >= 0); sum += probs[k] as i64; assert!(probs[k] as i64 <= 1i64 << (acc_log - 1)); k += 1; }
        assert!(acc_log >= 5 && acc_log <= 9);
        assert!(sum == 1i64 << acc_log);
        unsafe { SEEN = true; }
        FSETable { states: core::array::from_fn(|_| SymbolStates { states: Vec::new(), probability: 0 }), table_size: 1 << acc_log }
    }
    #[kani::proof]
    #[kani::unwind(8)]
    #[kani::stub(build_table_from_probabilities, checking_stub)]
    fn normalisation_contract_3sym() {
        let counts: [usize; 3] = kani::any();
        let n: usize = kani::any();
        kani::assume(n >= 1 && n <= 3);
        let mut k = 0; while k < 3 { kani::assume(counts[k] <= 64); k += 1; }
        kani::assume(counts[n - 1] > 0);
        let max_log: u8 = kani::any();
        kani::assume(max_log == 6 || max_log == 8 || max_log == 9);
        let t = build_table_from_counts(&counts[..n], max_log, true);
        core::mem::forget(t);
    }

    fn norm<const N: usize>() {
        let counts: [usize; N] = kani::any();
        let mut k = 0; while k < N { kani::assume(counts[k] <= 64); k += 1; }
        kani::assume(counts[N - 1] > 0);
        let max_log: u8 = kani::any();
        kani::assume(max_log == 6 || max_log == 8 || max_log == 9);
        let t = build_table_from_counts(&counts, max_log, true);
        core::mem::forget(t);
    }
    #[kani::proof]
    #[kani::unwind(258)]
    #[kani::stub(build_table_from_probabilities, checking_stub)]
    fn normalisation_contract_n1() { norm::<1>(); }
    #[kani::proof]
    #[kani::unwind(258)]
    #[kani::stub(build_table_from_probabilities, checking_stub)]
    fn normalisation_contract_n2() { norm::<2>(); }
}
