// probe harness appended to ruzstd/src/encoding/frame_header.rs during the design phase (scratch copy only)
#[cfg(kani)]
#[allow(warnings)]
mod verif_kani {
    use super::*;
    #[kani::proof]
    #[kani::unwind(10)]
    fn production_frame_header_roundtrip() {
        // what FrameCompressor writes: no fcs, not single segment, no dict, symbolic checksum flag and matcher window
        let w: u64 = kani::any();
        kani::assume(w >= 1 && w <= 1 << 41);
        let ck: bool = kani::any();
        let mut out: Vec<u8> = Vec::with_capacity(32);
        FrameHeader { frame_content_size: None, single_segment: false, content_checksum: ck, dictionary_id: None, window_size: Some(w) }.serialize(&mut out);
        let mut src = &out[..];
        let (h, n) = crate::decoding::frame::read_frame_header(&mut src).unwrap();
        assert!(n as usize == out.len());
        assert!(h.descriptor.content_checksum_flag() == ck);
        assert!(h.dictionary_id().is_none());
        assert!(h.frame_content_size() == 0);
        let ws = h.window_size().unwrap();
        assert!(ws >= w);
    }
}
