#!/bin/bash
# usage: run.sh <harness> <timeout_s> [extra kani args]
h=$1; t=$2; shift 2
cd /tmp/probe/ruzstd
start=$(date +%s)
( ulimit -v 20000000; CARGO_NET_OFFLINE=true timeout $t cargo kani --harness $h --target-dir /tmp/probe/tgt/$h "$@" > /tmp/probe/logs/$h.log 2>&1 )
rc=$?
end=$(date +%s)
echo "$h rc=$rc wall=$((end-start))s $(grep -E 'VERIFICATION:-|Complete -' /tmp/probe/logs/$h.log | tr '\n' ' ')"
