// probe harness appended to ruzstd/src/decoding/ringbuffer.rs during the design phase (scratch copy only)
#[cfg(kani)]
#[allow(warnings)]
pub(crate) mod verif_kani {
    use super::*;

    fn mk<const RES: usize, const CAP: usize>() -> (RingBuffer, [u8; CAP], usize, usize, usize) {
        let mut rb = RingBuffer::new();
        rb.reserve(RES);
        assert!(rb.cap == CAP);
        let init: [u8; CAP] = kani::any();
        unsafe { core::ptr::copy_nonoverlapping(init.as_ptr(), rb.buf.as_ptr(), CAP); }
        let head: usize = kani::any();
        let tail: usize = kani::any();
        kani::assume(head < CAP && tail < CAP);
        rb.head = head;
        rb.tail = tail;
        let len = if tail >= head { tail - head } else { CAP - head + tail };
        (rb, init, head, tail, len)
    }

    fn step_noalloc<const RES: usize, const CAP: usize>() {
        let (mut rb, init, head, tail, len) = mk::<RES, CAP>();
        assert!(rb.len() == len);
        assert!(rb.free() == CAP - 1 - len);
        let start: usize = kani::any();
        let n: usize = kani::any();
        kani::assume(start <= len && n <= len - start);
        kani::assume(n <= CAP - 1 - len);
        unsafe { rb.extend_from_within_unchecked(start, n) };
        assert!(rb.head == head && rb.tail < CAP);
        assert!(rb.tail == (tail + n) % CAP);
        let i: usize = kani::any();
        kani::assume(i < len + n);
        let src_i = if i < len { i } else { start + (i - len) };
        let want = init[(head + src_i) % CAP];
        let got = unsafe { *rb.buf.as_ptr().add((head + i) % CAP) };
        assert!(got == want);
    }

    #[kani::proof]
    #[kani::unwind(10)]
    fn rb_efw_noalloc_cap9() { step_noalloc::<8, 9>(); }

    #[kani::proof]
    #[kani::unwind(18)]
    fn rb_efw_noalloc_cap17() { step_noalloc::<16, 17>(); }

    #[kani::proof]
    #[kani::unwind(34)]
    fn rb_efw_noalloc_cap33() { step_noalloc::<32, 33>(); }

    /// Stub for reserve_amortized: first allocation gets a fixed concrete capacity; growth is cut.
    pub(crate) fn fixed_first_alloc(rb: &mut RingBuffer, _amount: usize) {
        assert!(rb.cap == 0, "growth cut: outside the bound of this harness");
        const CAP: usize = 65;
        let layout = Layout::array::<u8>(CAP).unwrap();
        let p = unsafe { alloc(layout) };
        rb.buf = NonNull::new(p).unwrap();
        rb.cap = CAP;
    }

    #[kani::proof]
    #[kani::unwind(20)]
    fn rb_reserve_grow_cap9_to_17() {
        let (mut rb, init, head, tail, len) = mk::<8, 9>();
        // amount such that growth is needed and new capacity is 17: free < amount <= free + 8 ... use concrete extra
        let free = 8 - len;
        rb.reserve(free + 1);
        assert!(rb.cap == 17);
        assert!(rb.head == 0 && rb.tail == len);
        assert!(rb.len() == len);
        let i: usize = kani::any();
        kani::assume(i < len);
        let got = unsafe { *rb.buf.as_ptr().add(i) };
        assert!(got == init[(head + i) % 9]);
    }

    #[kani::proof]
    #[kani::unwind(20)]
    fn rb_extend_fill_drop_cap17() {
        let (mut rb, init, head, tail, len) = mk::<16, 17>();
        let n: usize = kani::any();
        kani::assume(n <= 16 - len);
        let b: u8 = kani::any();
        rb.extend_and_fill(b, n);
        assert!(rb.len() == len + n && rb.head == head);
        let d: usize = kani::any();
        kani::assume(d <= len + n);
        rb.drop_first_n(d);
        assert!(rb.len() == len + n - d);
        let i: usize = kani::any();
        kani::assume(i < len + n - d);
        let k = i + d;
        let want = if k < len { init[(head + k) % 17] } else { b };
        assert!(rb.get(i) == Some(want));
    }
}
