// probe harness appended to ruzstd/src/encoding/block_header.rs during the design phase (scratch copy only)
#[cfg(kani)]
#[allow(warnings)]
mod verif_kani {
    use super::*;
    #[kani::proof]
    #[kani::unwind(5)]
    fn block_header_roundtrip() {
        let size: u32 = kani::any();
        kani::assume(size <= 128 * 1024);
        let ty: u8 = kani::any();
        kani::assume(ty < 3);
        let last: bool = kani::any();
        let bt = match ty { 0 => BlockType::Raw, 1 => BlockType::RLE, _ => BlockType::Compressed };
        let mut out: Vec<u8> = Vec::with_capacity(8);
        BlockHeader { last_block: last, block_type: bt, block_size: size }.serialize(&mut out);
        assert!(out.len() == 3);
        let mut d = crate::decoding::block_decoder::new();
        let (h, _) = d.read_block_header(&out[..]).unwrap();
        assert!(h.last_block == last && h.block_type == bt);
        match bt { BlockType::RLE => assert!(h.decompressed_size == size && h.content_size == 1), _ => assert!(h.content_size == size) }
    }
}
