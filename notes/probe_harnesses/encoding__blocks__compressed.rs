// probe harness appended to ruzstd/src/encoding/blocks/compressed.rs during the design phase (scratch copy only)
#[cfg(kani)]
#[allow(warnings)]
mod verif_kani {
    use super::*;
    use crate::blocks::sequence_section::SequencesHeader;
    use crate::decoding::sequence_section_decoder::verif_kani as dec;

    #[kani::proof]
    #[kani::unwind(5)]
    fn seqnum_roundtrip() {
        let n: usize = kani::any();
        kani::assume(n >= 1 && n <= 0xFFFF + 0x7F00);
        let mut out: Vec<u8> = Vec::new();
        {
            let mut w = BitWriter::from(&mut out);
            encode_seqnum(n, &mut w);
            w.write_bits(0u8, 8); // the modes byte
            w.flush();
        }
        let mut h = SequencesHeader::new();
        let used = h.parse_from_header(&out).unwrap();
        assert_eq!(h.num_sequences as usize, n);
        assert_eq!(used as usize, out.len());
    }

    #[kani::proof]
    fn ll_code_roundtrip() {
        let len: u32 = kani::any();
        kani::assume(len <= 131071);
        let (code, add, nbits) = encode_literal_length(len);
        let (base, dbits) = dec::lookup_ll_code(code);
        assert_eq!(dbits as usize, nbits);
        assert!(nbits == 0 && add == 0 || (add as u64) < (1u64 << nbits));
        assert_eq!(base + add, len);
    }

    #[kani::proof]
    fn ml_code_roundtrip() {
        let len: u32 = kani::any();
        kani::assume(len >= 3 && len <= 131074);
        let (code, add, nbits) = encode_match_len(len);
        let (base, dbits) = dec::lookup_ml_code(code);
        assert_eq!(dbits as usize, nbits);
        assert!(nbits == 0 && add == 0 || (add as u64) < (1u64 << nbits));
        assert_eq!(base + add, len);
    }

    #[kani::proof]
    fn of_code_roundtrip() {
        let v: u32 = kani::any();
        kani::assume(v >= 1);
        let (code, add, nbits) = encode_offset(v);
        assert!(code <= 31);
        assert_eq!(nbits, code as usize);
        assert!((add as u64) < (1u64 << nbits));
        assert_eq!((1u32 << code) + add, v);
    }
}
