// probe harness appended to ruzstd/src/huff0/huff0_decoder.rs during the design phase (scratch copy only)
#[cfg(kani)]
#[allow(warnings)]
mod verif_kani {
    use super::*;
    #[kani::proof]
    #[kani::unwind(18)]
    fn huff_direct_weights_small() {
        // direct representation, up to 4 weights each <= 4 => max_bits <= 4, table <= 16 entries
        let b: [u8; 3] = kani::any();
        kani::assume(b[0] >= 128 && b[0] <= 131);
        let nw = (b[0] - 127) as usize;
        let mut t = HuffmanTable::new();
        let r = t.build_decoder(&b[..]);
        let mut w = [0u8; 4];
        w[0] = b[1] >> 4; w[1] = b[1] & 15; w[2] = b[2] >> 4; w[3] = b[2] & 15;
        let mut k = 0; while k < 4 { kani::assume(w[k] <= 4); k += 1; }
        let mut sum: u32 = 0; let mut k = 0; while k < nw { if w[k] > 0 { sum += 1 << (w[k] - 1); } k += 1; }
        if sum == 0 { assert!(r.is_err()); return; }
        let maxb = 32 - sum.leading_zeros();
        let left = (1u32 << maxb) - sum;
        if left & (left - 1) != 0 { assert!(r.is_err()); return; }
        assert!(r.is_ok());
        assert!(t.max_num_bits as u32 == maxb);
        // every table entry: the symbol's length matches weights; Kraft: entries for symbol s = 2^(w-1)
        let i: usize = kani::any();
        kani::assume(i < t.decode.len());
        let e = t.decode[i];
        let lw = 32 - left.leading_zeros();
        let wsym = if (e.symbol as usize) < nw { w[e.symbol as usize] as u32 } else { lw };
        assert!(e.symbol as usize <= nw);
        assert!(wsym > 0 && e.num_bits as u32 == maxb + 1 - wsym);
    }
}
