// probe harness appended to ruzstd/src/fse/fse_decoder.rs during the design phase (scratch copy only)
#[cfg(kani)]
#[allow(warnings)]
mod verif_kani {
    use super::*;
    #[kani::proof]
    fn baseline_numbits_matches_reference() {
        let acc: u8 = kani::any();
        kani::assume(acc >= 1 && acc <= 9);
        let size: u32 = 1 << acc;
        let p: u32 = kani::any();
        kani::assume(p >= 1 && p <= size);
        let i: u32 = kani::any();
        kani::assume(i < p);
        let (bl, nb) = calc_baseline_and_numbits(size, p, i);
        // zstd reference FSE_buildDTable: nextState = p + i; nbBits = tableLog - highbit32(nextState); newState = (nextState << nbBits) - tableSize
        let next = p + i;
        let hb = 31 - next.leading_zeros();
        let rnb = acc as u32 - hb;
        let rbl = (next << rnb) - size;
        assert_eq!(nb as u32, rnb);
        assert_eq!(bl, rbl);
    }

    #[kani::proof]
    #[kani::unwind(34)]
    fn fse_build_decoder_acc5_any_bytes() {
        const N: usize = 6;
        let buf: [u8; N] = kani::any();
        let len: usize = kani::any();
        kani::assume(len <= N);
        kani::assume(buf[0] & 0xF == 0); // accuracy log 5
        let mut t = FSETable::new(35);
        let r = t.build_decoder(&buf[..len], 9);
        if let Ok(used) = r {
            assert!(used <= len);
            assert!(t.decode.len() == 32);
            let i: usize = kani::any();
            kani::assume(i < 32);
            let e = t.decode[i];
            assert!(e.num_bits <= 5);
            assert!((e.base_line as usize) + (1usize << e.num_bits) <= 32);
            assert!((e.symbol as usize) < t.symbol_probabilities.len());
        }
    }

    // independent transcription of RFC 8878 4.1.1 table construction
    fn spec_table(probs: &[i32; 4], out_sym: &mut [u8; 32], out_nb: &mut [u8; 32], out_bl: &mut [u32; 32]) {
        let size = 32usize;
        let mut high = size;
        let mut s = 0;
        while s < 4 { if probs[s] == -1 { high -= 1; out_sym[high] = s as u8; out_nb[high] = 5; out_bl[high] = 0; } s += 1; }
        let mut pos = 0usize;
        let mut s = 0;
        while s < 4 {
            if probs[s] > 0 {
                let mut k = 0;
                while k < probs[s] {
                    out_sym[pos] = s as u8;
                    pos = (pos + (size >> 1) + (size >> 3) + 3) & (size - 1);
                    while pos >= high { pos = (pos + (size >> 1) + (size >> 3) + 3) & (size - 1); }
                    k += 1;
                }
            }
            s += 1;
        }
        let mut next = [0u32; 4];
        let mut s = 0; while s < 4 { next[s] = if probs[s] > 0 { probs[s] as u32 } else { 0 }; s += 1; }
        let mut i = 0;
        while i < high {
            let sy = out_sym[i] as usize;
            let ns = next[sy]; next[sy] += 1;
            let nb = 5 - (31 - ns.leading_zeros());
            out_nb[i] = nb as u8;
            out_bl[i] = (ns << nb) - 32;
            i += 1;
        }
    }

    #[kani::proof]
    #[kani::unwind(34)]
    fn fse_table_matches_spec_acc5_4sym() {
        let probs: [i32; 4] = kani::any();
        let mut sum = 0i32;
        let mut s = 0;
        while s < 4 { kani::assume(probs[s] >= -1 && probs[s] <= 32); sum += if probs[s] == -1 { 1 } else { probs[s] }; s += 1; }
        kani::assume(sum == 32);
        let mut t = FSETable::new(35);
        t.build_from_probabilities(5, &probs).unwrap();
        let mut sy = [0u8; 32]; let mut nb = [0u8; 32]; let mut bl = [0u32; 32];
        spec_table(&probs, &mut sy, &mut nb, &mut bl);
        let i: usize = kani::any();
        kani::assume(i < 32);
        assert!(t.decode[i].symbol == sy[i]);
        assert!(t.decode[i].num_bits == nb[i]);
        assert!(t.decode[i].base_line == bl[i]);
    }
}
