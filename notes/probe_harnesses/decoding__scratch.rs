// probe harness appended to ruzstd/src/decoding/scratch.rs during the design phase (scratch copy only)
#[cfg(kani)]
#[allow(warnings)]
mod verif_kani {
    use super::*;
    use crate::decoding::ringbuffer::verif_kani::fixed_first_alloc;
    #[kani::proof]
    #[kani::unwind(14)]
    #[kani::stub(crate::decoding::ringbuffer::RingBuffer::reserve_amortized, fixed_first_alloc)]
    fn scratch_reset_equals_new() {
        let mut s = DecoderScratch::new(8);
        s.offset_hist = kani::any();
        s.fse.ll_rle = kani::any();
        s.fse.ml_rle = kani::any();
        s.fse.of_rle = kani::any();
        s.fse.literal_lengths.accuracy_log = kani::any();
        s.fse.match_lengths.accuracy_log = kani::any();
        s.fse.offsets.accuracy_log = kani::any();
        s.fse.literal_lengths.symbol_probabilities.push(kani::any());
        s.fse.offsets.decode.push(crate::fse::Entry { base_line: kani::any(), num_bits: kani::any(), symbol: kani::any() });
        s.huf.table.max_num_bits = kani::any();
        s.literals_buffer.push(kani::any());
        s.block_content_buffer.push(kani::any());
        s.sequences.push(Sequence { ll: kani::any(), ml: kani::any(), of: kani::any() });
        s.buffer.dict_content.push(kani::any());
        s.buffer.window_size = kani::any();
        let b: [u8; 3] = kani::any();
        s.buffer.push(&b);
        let w: usize = kani::any();
        kani::assume(w <= 16);
        s.reset(w);
        assert!(s.offset_hist == [1, 4, 8]);
        assert!(s.fse.ll_rle.is_none() && s.fse.ml_rle.is_none() && s.fse.of_rle.is_none());
        assert!(s.fse.literal_lengths.accuracy_log == 0 && s.fse.match_lengths.accuracy_log == 0 && s.fse.offsets.accuracy_log == 0);
        assert!(s.fse.literal_lengths.symbol_probabilities.is_empty() && s.fse.offsets.decode.is_empty());
        assert!(s.huf.table.max_num_bits == 0);
        assert!(s.literals_buffer.is_empty() && s.block_content_buffer.is_empty() && s.sequences.is_empty());
        assert!(s.buffer.dict_content.is_empty() && s.buffer.window_size == w && s.buffer.len() == 0);
        core::mem::forget(s);
    }
}
