// probe harness appended to ruzstd/src/encoding/frame_compressor.rs during the design phase (scratch copy only)
#[cfg(kani)]
#[allow(warnings)]
mod verif_kani {
    use super::*;
    use crate::encoding::match_generator::MatchGeneratorDriver;
    fn empty_table() -> FSETable { crate::fse::fse_encoder::verif_kani::empty() }

    #[kani::proof]
    #[kani::unwind(258)]
    #[kani::stub(crate::fse::fse_encoder::default_ll_table, empty_table)]
    #[kani::stub(crate::fse::fse_encoder::default_ml_table, empty_table)]
    #[kani::stub(crate::fse::fse_encoder::default_of_table, empty_table)]
    fn frame_loop_uncompressed_len5_block4() {
        let data: [u8; 5] = kani::any();
        let mut out: Vec<u8> = Vec::with_capacity(64);
        {
            let mut fc: FrameCompressor<&[u8], &mut Vec<u8>, MatchGeneratorDriver> =
                FrameCompressor::new_with_matcher(MatchGeneratorDriver::new(4, 1), CompressionLevel::Uncompressed);
            fc.set_source(&data[..]);
            fc.set_drain(&mut out);
            fc.compress();
            core::mem::forget(fc);
        }
        // magic(4) desc(1) window(1) | hdr(3) 4 bytes | hdr(3) 1 byte  [+4 checksum if hash]
        let base = 6 + 3 + 4 + 3 + 1;
        assert!(out.len() == base + if cfg!(feature = "hash") { 4 } else { 0 });
        assert!(out[6] == (4 << 3) as u8 && out[7] == 0 && out[8] == 0);
        assert!(out[9] == data[0] && out[12] == data[3]);
        assert!(out[13] == ((1 << 3) | 1) as u8);
        assert!(out[16] == data[4]);
    }
}
