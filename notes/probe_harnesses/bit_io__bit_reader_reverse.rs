// probe harness appended to ruzstd/src/bit_io/bit_reader_reverse.rs during the design phase (scratch copy only)
#[cfg(kani)]
#[allow(warnings)]
mod verif_kani {
    use super::*;
    #[kani::proof]
    #[kani::unwind(18)]
    fn brr_triple_equals_three_singles() {
        const N: usize = 16;
        let buf: [u8; N] = kani::any();
        let len: usize = kani::any();
        kani::assume(len <= N);
        let src = &buf[..len];
        let pre: u8 = kani::any();
        kani::assume(pre <= 16);
        let n1: u8 = kani::any(); let n2: u8 = kani::any(); let n3: u8 = kani::any();
        kani::assume(n1 <= 31 && n2 <= 16 && n3 <= 16);
        let mut a = BitReaderReversed::new(src);
        let mut b = BitReaderReversed::new(src);
        a.get_bits(pre); b.get_bits(pre);
        let (x1, x2, x3) = a.get_bits_triple(n1, n2, n3);
        let y1 = b.get_bits(n1); let y2 = b.get_bits(n2); let y3 = b.get_bits(n3);
        assert!(x1 == y1 && x2 == y2 && x3 == y3);
        assert!(a.bits_remaining() == b.bits_remaining());
    }
}
