// probe harness appended to ruzstd/src/encoding/match_generator.rs during the design phase (scratch copy only)
#[cfg(kani)]
#[allow(warnings)]
mod verif_kani {
    use super::*;
    #[kani::proof]
    #[kani::unwind(10)]
    fn mg_two_blocks() {
        const B: usize = 6;
        let data: [u8; 2 * B] = kani::any();
        let mut mg = MatchGenerator::new(2 * B);
        mg.add_data(data[..B].to_vec(), SuffixStore::with_capacity(8), |_, _| {});
        mg.skip_matching();
        mg.add_data(data[B..].to_vec(), SuffixStore::with_capacity(8), |_, _| {});
        let mut pos = B;
        let mut ok = true;
        let mut calls = 0;
        while calls < 3 && mg.next_sequence(|seq| match seq {
            Sequence::Literals { literals } => { pos += literals.len(); }
            Sequence::Triple { literals, offset, match_len } => {
                pos += literals.len();
                if offset == 0 || offset > pos || match_len < 5 || pos + match_len > 2 * B { ok = false; }
                else { let mut k = 0; while k < match_len { if data[pos + k] != data[pos + k - offset] { ok = false; } k += 1; } }
                pos += match_len;
            }
        }) { calls += 1; }
        assert!(ok);
        assert!(pos == 2 * B);
    }
}
