// probe harness appended to ruzstd/src/dictionary/mod.rs during the design phase (scratch copy only)
#[cfg(kani)]
#[allow(warnings)]
mod verif_kani {
    use super::*;
    #[kani::proof]
    fn dict_sizing_arithmetic_never_panics() {
        let source_size: usize = kani::any();
        let dict_size: usize = kani::any();
        kani::assume(source_size >= 16);
        // lines 145-167 of create_raw_dict_from_source, verbatim order
        let params = DictParams { segment_size: u32::min(2048, source_size as u32) };
        let num_segments = source_size / params.segment_size as usize;
        let sample_size = usize::max(16, source_size / usize::min(source_size / (2 * num_segments), 256));
        let (_, epoch_size) = compute_epoch_info(&params, dict_size, source_size / K);
        let num_epochs = source_size / epoch_size;
        assert!(sample_size >= 16);
    }
}
