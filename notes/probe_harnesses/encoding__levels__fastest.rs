// probe harness appended to ruzstd/src/encoding/levels/fastest.rs during the design phase (scratch copy only)
#[cfg(kani)]
#[allow(warnings)]
mod verif_kani {
    use super::*;
    use crate::encoding::frame_compressor::FseTables;
    use crate::encoding::{CompressionLevel, Sequence};
    use crate::fse::fse_encoder::FSETable;
    use crate::huff0::huff0_encoder::HuffmanTable;

    struct M { space: Vec<u8> }
    impl Matcher for M {
        fn get_next_space(&mut self) -> Vec<u8> { Vec::new() }
        fn get_last_space(&mut self) -> &[u8] { &self.space }
        fn commit_space(&mut self, s: Vec<u8>) { self.space = s; }
        fn skip_matching(&mut self) {}
        fn start_matching(&mut self, _h: impl for<'a> FnMut(Sequence<'a>)) {}
        fn reset(&mut self, _l: CompressionLevel) {}
        fn window_size(&self) -> u64 { 1024 }
    }

    fn havoc_compress_block<MM: Matcher>(state: &mut CompressState<MM>, output: &mut Vec<u8>) {
        let n: usize = kani::any();
        kani::assume(n <= 12);
        let bytes: [u8; 12] = kani::any();
        output.extend_from_slice(&bytes[..n]);
        if kani::any() { state.last_huff_table = Some(HuffmanTable::build_from_weights(&[1, 1])); }
    }
    fn empty_table() -> FSETable { crate::fse::fse_encoder::verif_kani::empty() }

    #[kani::proof]
    #[kani::unwind(258)]
    #[kani::stub(crate::encoding::blocks::compress_block, havoc_compress_block)]
    fn fastest_block_framing_and_table_state() {
        let data: [u8; 4] = kani::any();
        let mut st = CompressState {
            matcher: M { space: Vec::new() },
            last_huff_table: None,
            fse_tables: FseTables { ll_default: empty_table(), ll_previous: None, ml_default: empty_table(), ml_previous: None, of_default: empty_table(), of_previous: None },
        };
        let last: bool = kani::any();
        let mut out: Vec<u8> = Vec::with_capacity(64);
        compress_fastest(&mut st, last, data.to_vec(), &mut out);
        assert!(out.len() >= 3 && out.len() <= 3 + 4);
        let h = (out[0] as u32) | (out[1] as u32) << 8 | (out[2] as u32) << 16;
        assert!((h & 1 == 1) == last);
        let ty = (h >> 1) & 3; let size = (h >> 3) as usize;
        let all_eq = data[0] == data[1] && data[1] == data[2] && data[2] == data[3];
        if all_eq { assert!(ty == 1 && size == 4 && out.len() == 4 && out[3] == data[0]); }
        else if ty == 0 { assert!(size == 4 && out.len() == 7 && out[3] == data[0] && out[6] == data[3]);
            // the encoder's belief about the decoder's Huffman table must not have changed
            assert!(st.last_huff_table.is_none());
        } else { assert!(ty == 2 && size < 4 && out.len() == 3 + size); }
        core::mem::forget(st);
    }
}
