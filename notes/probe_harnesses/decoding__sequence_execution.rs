// probe harness appended to ruzstd/src/decoding/sequence_execution.rs during the design phase (scratch copy only)
#[cfg(kani)]
#[allow(warnings)]
mod verif_kani {
    use super::*;
    // RFC 8878 3.1.1.5 transcribed independently
    fn spec(of: u32, ll: u32, h: [u32; 3]) -> (u32, [u32; 3]) {
        if of > 3 {
            let o = of - 3;
            return (o, [o, h[0], h[1]]);
        }
        let idx = if ll == 0 { of } else { of - 1 }; // 0..=3
        match idx {
            0 => (h[0], h),
            1 => (h[1], [h[1], h[0], h[2]]),
            2 => (h[2], [h[2], h[0], h[1]]),
            _ => { let o = h[0].wrapping_sub(1); (o, [o, h[0], h[1]]) }
        }
    }
    #[kani::proof]
    fn offset_history_matches_spec() {
        let of: u32 = kani::any();
        let ll: u32 = kani::any();
        let h: [u32; 3] = kani::any();
        kani::assume(of >= 1);
        kani::assume(h[0] >= 1 && h[1] >= 1 && h[2] >= 1);
        let mut s = h;
        let got = do_offset_history(of, ll, &mut s);
        let (want, wh) = spec(of, ll, h);
        assert_eq!(got, want);
        if got != 0 { assert_eq!(s, wh); }
    }

    use crate::blocks::sequence_section::Sequence;
    #[kani::proof]
    #[kani::unwind(18)]
    #[kani::stub(crate::decoding::ringbuffer::RingBuffer::reserve_amortized, crate::decoding::ringbuffer::verif_kani::fixed_first_alloc)]
    fn exec_two_sequences_model() {
        let mut sc = DecoderScratch::new(32);
        sc.buffer.reset(32);
        // history: 4 symbolic bytes already in the window
        let hist: [u8; 4] = kani::any();
        sc.buffer.push(&hist);
        let lits: [u8; 4] = kani::any();
        sc.literals_buffer.extend_from_slice(&lits);
        let mut model = [0u8; 40];
        let mut mlen = 4usize;
        model[..4].copy_from_slice(&hist);
        let mut lit_pos = 0usize;
        let mut k = 0;
        let mut ok = true;
        while k < 2 {
            let ll: u32 = kani::any(); let ml: u32 = kani::any(); let of: u32 = kani::any();
            kani::assume(ll <= 2 && ml <= 8 && of >= 4 && of <= 3 + 8);
            sc.sequences.push(Sequence { ll, ml, of });
            // model
            let mut j = 0; while j < ll as usize { model[mlen] = lits[lit_pos]; mlen += 1; lit_pos += 1; j += 1; }
            let off = (of - 3) as usize;
            if off > mlen { ok = false; }
            if ok { let mut j = 0; while j < ml as usize { model[mlen] = model[mlen - off]; mlen += 1; j += 1; } }
            k += 1;
        }
        let r = execute_sequences(&mut sc);
        if ok {
            assert!(r.is_ok());
            while lit_pos < 4 { model[mlen] = lits[lit_pos]; mlen += 1; lit_pos += 1; }
            assert!(sc.buffer.len() == mlen);
            let mut out = [0u8; 40];
            let n = sc.buffer.read_all(&mut out).unwrap();
            assert!(n == mlen);
            let i: usize = kani::any();
            kani::assume(i < mlen);
            assert!(out[i] == model[i]);
        } else {
            assert!(r.is_err());
        }
    }
}
