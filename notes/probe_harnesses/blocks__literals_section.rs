// probe harness appended to ruzstd/src/blocks/literals_section.rs during the design phase (scratch copy only)
#[cfg(kani)]
#[allow(warnings)]
mod verif_kani {
    use super::*;
    #[kani::proof]
    #[kani::unwind(10)]
    fn literals_header_all_patterns() {
        let b: [u8; 5] = kani::any();
        let len: usize = kani::any();
        kani::assume(len <= 5);
        let mut s = LiteralsSection::new();
        let r = s.parse_from_header(&b[..len]);
        if len == 0 { assert!(r.is_err()); return; }
        let v: u64 = (b[0] as u64) | (b[1] as u64) << 8 | (b[2] as u64) << 16 | (b[3] as u64) << 24 | (b[4] as u64) << 32;
        let ty = v & 3; let sf = (v >> 2) & 3;
        // RFC 8878 3.1.1.3.1.1
        let (need, regen, comp, streams): (usize, u64, Option<u64>, Option<u8>) = if ty < 2 {
            match sf { 0 | 2 => (1, v >> 3 & 0x1F, None, None), 1 => (2, v >> 4 & 0xFFF, None, None), _ => (3, v >> 4 & 0xFFFFF, None, None) }
        } else {
            match sf { 0 => (3, v >> 4 & 0x3FF, Some(v >> 14 & 0x3FF), Some(1)), 1 => (3, v >> 4 & 0x3FF, Some(v >> 14 & 0x3FF), Some(4)),
                       2 => (4, v >> 4 & 0x3FFF, Some(v >> 18 & 0x3FFF), Some(4)), _ => (5, v >> 4 & 0x3FFFF, Some(v >> 22 & 0x3FFFF), Some(4)) }
        };
        if len < need { assert!(r.is_err()); return; }
        let used = r.unwrap();
        assert!(used as usize == need);
        assert!(s.regenerated_size as u64 == regen);
        assert!(s.compressed_size.map(|x| x as u64) == comp);
        if ty >= 2 { assert!(s.num_streams == streams); }
    }
}
