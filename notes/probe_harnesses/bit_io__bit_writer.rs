// probe harness appended to ruzstd/src/bit_io/bit_writer.rs during the design phase (scratch copy only)
#[cfg(kani)]
#[allow(warnings)]
mod verif_kani {
    use super::*;
    #[kani::proof]
    #[kani::unwind(20)]
    fn bw_three_writes_model() {
        let mut w = BitWriter::new();
        let mut model: u128 = 0;
        let mut total: usize = 0;
        for _ in 0..3 {
            let n: usize = kani::any();
            kani::assume(n <= 40);
            let bits: u64 = kani::any();
            kani::assume(n == 64 || bits >> n == 0);
            w.write_bits(bits, n);
            model |= (bits as u128) << total;
            total += n;
            assert!(w.index() == total);
        }
        let pad = w.misaligned();
        w.write_bits(0u8, pad);
        total += pad;
        let out = w.dump();
        assert!(out.len() * 8 == total);
        let i: usize = kani::any();
        kani::assume(i < out.len());
        assert!(out[i] == (model >> (8 * i)) as u8);
    }
}
