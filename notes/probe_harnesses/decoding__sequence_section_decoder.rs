// probe harness appended to ruzstd/src/decoding/sequence_section_decoder.rs during the design phase (scratch copy only)
#[cfg(kani)]
#[allow(warnings)]
pub(crate) mod verif_kani {
    pub(crate) fn lookup_ll_code(c: u8) -> (u32, u8) { super::lookup_ll_code(c) }
    pub(crate) fn lookup_ml_code(c: u8) -> (u32, u8) { super::lookup_ml_code(c) }
}
