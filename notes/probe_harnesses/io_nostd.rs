// probe harness appended to ruzstd/src/io_nostd.rs during the design phase (scratch copy only)
#[cfg(kani)]
#[allow(warnings)]
mod verif_kani {
    use super::*;
    #[kani::proof]
    #[kani::unwind(10)]
    fn nostd_slice_read_exact_and_take() {
        let data: [u8; 8] = kani::any();
        let l: usize = kani::any();
        kani::assume(l <= 8);
        let mut src = &data[..l];
        let limit: u64 = kani::any();
        let want: usize = kani::any();
        kani::assume(want <= 8);
        let mut buf = [0u8; 8];
        let mut t = Read::take(&mut src, limit);
        let r = t.read_exact(&mut buf[..want]);
        let avail = if (limit as usize) < l && limit < 9 { limit as usize } else { l };
        if want <= avail {
            assert!(r.is_ok());
            assert!(src.len() == l - want);
            let i: usize = kani::any(); kani::assume(i < want);
            assert!(buf[i] == data[i]);
        } else {
            assert!(r.is_err());
            assert!(src.len() == l - avail);
        }
    }
}
