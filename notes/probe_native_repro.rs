use ruzstd::encoding::{compress_to_vec, CompressionLevel, FrameCompressor, Matcher, Sequence};
use ruzstd::decoding::{FrameDecoder, BlockDecodingStrategy};
use std::panic::catch_unwind;

/// scripted matcher: per block a list of (lit_len, offset, match_len) then trailing literals
struct Scripted {
    blocks: Vec<Vec<(usize, usize, usize)>>,
    cur: usize,
    space: Vec<u8>,
    bs: usize,
    win: u64,
}
impl Matcher for Scripted {
    fn get_next_space(&mut self) -> Vec<u8> { vec![0; self.bs] }
    fn get_last_space(&mut self) -> &[u8] { &self.space }
    fn commit_space(&mut self, space: Vec<u8>) { self.space = space; }
    fn skip_matching(&mut self) { self.cur += 1; }
    fn start_matching(&mut self, mut h: impl for<'a> FnMut(Sequence<'a>)) {
        let script = self.blocks.get(self.cur).cloned().unwrap_or_default();
        self.cur += 1;
        let mut pos = 0;
        for (ll, of, ml) in script {
            h(Sequence::Triple { literals: &self.space[pos..pos + ll], offset: of, match_len: ml });
            pos += ll + ml;
        }
        if pos < self.space.len() { h(Sequence::Literals { literals: &self.space[pos..] }); }
    }
    fn reset(&mut self, _l: CompressionLevel) { self.cur = 0; }
    fn window_size(&self) -> u64 { self.win }
}

fn decode(c: &[u8]) -> Result<Vec<u8>, String> {
    let mut d = FrameDecoder::new();
    let mut out = Vec::with_capacity(1 << 22);
    d.decode_all_to_vec(c, &mut out).map_err(|e| format!("{e}"))?;
    Ok(out)
}

fn run_scripted(data: &[u8], bs: usize, blocks: Vec<Vec<(usize, usize, usize)>>) -> Result<Result<Vec<u8>, String>, String> {
    let data = data.to_vec();
    catch_unwind(move || {
        let m = Scripted { blocks, cur: 0, space: vec![], bs, win: 1 << 20 };
        let mut out = Vec::new();
        let mut fc = FrameCompressor::new_with_matcher(m, CompressionLevel::Fastest);
        fc.set_source(&data[..]);
        fc.set_drain(&mut out);
        fc.compress();
        drop(fc);
        decode(&out)
    }).map_err(|e| e.downcast_ref::<String>().cloned().or(e.downcast_ref::<&str>().map(|s| s.to_string())).unwrap_or("panic".into()))
}

fn main() {
    std::panic::set_hook(Box::new(|_| {}));
    // F3: >= 0x7F00 sequences in one block
    for nseq in [32511usize, 32512, 33000, 40000] {
        let mut script = vec![(2usize, 2usize, 3usize)];
        for k in 1..nseq { script.push((0, 2, if k % 2 == 0 { 3 } else { 4 })); }
        let n: usize = script.iter().map(|(l, _, m)| l + m).sum();
        let data: Vec<u8> = (0..n).map(|i| (i % 2) as u8).collect();
        assert!(n <= 128 * 1024 || nseq > 37000, "{n}");
        if n > 128 * 1024 { continue; }
        let r = run_scripted(&data, 128 * 1024, vec![script]);
        println!("F3 {nseq} seqs ({n} bytes): {:?}", r.map(|r| r.map(|v| v == data)));
    }
    // F4: all ll codes 0 in a block (second block starts with a match)
    {
        let data: Vec<u8> = (0..40).map(|i| (i % 10) as u8).collect();
        let r = run_scripted(&data, 20, vec![vec![(10, 10, 10)], vec![(0, 10, 10), (0, 10, 10)]]);
        println!("F4 all-ll-zero: {:?}", r.map(|r| r.map(|v| v == data)));
        // all ml codes 0 (every match length 3), ll nonzero varied
        let data: Vec<u8> = vec![1,2,3,1,2,3,9,1,2,3,7,7,1,2,3, 4,5];
        let r = run_scripted(&data, 64, vec![vec![(3, 3, 3), (1, 4, 3), (2,5,3)]]);
        println!("F4 all-ml-code-zero: {:?}", r.map(|r| r.map(|v| v == data)));
    }
    // F8: >1024 literals all the same byte, block not RLE (matches into previous block)
    {
        let bs = 8192usize;
        let mut data: Vec<u8> = (0..bs as u32).map(|i| (i % 7 + 1) as u8).collect(); // block 1, no zeros
        let mut script = vec![];
        for _ in 0..1100usize {
            data.push(0);
            for _ in 0..5 { let b = data[data.len() - bs]; data.push(b); }
            script.push((1usize, bs, 5usize));
        }
        let r = run_scripted(&data, bs, vec![vec![], script]);
        println!("F8 single-literal-symbol: {:?}", r.map(|r| r.map(|v| v == data)));
    }
    // F5 search
    {
        let mut found = 0;
        let mut seed = 12345u64;
        let mut rnd = move || { seed ^= seed << 13; seed ^= seed >> 7; seed ^= seed << 17; seed };
        const NS: u8 = 200; let mut last = (9u8, 9u8, 9u8);
        for e in 0..3000usize {
            let m = 6;
            let mut lits = Vec::new();
            for _ in 0..m { for x in 0..=NS { lits.push(x); } }
            for _ in 0..e { lits.push(7); }
            let mut a = vec![250u8, 251, 252, 250, 251, 252, 250];
            a.extend_from_slice(&lits);
            let bs = a.len();
            let mut data = a.clone();
            let mut b = lits.clone(); b.reverse(); b.extend_from_slice(&[250u8, 251, 252]);
            data.extend_from_slice(&b);
            let mm = Scripted { blocks: vec![vec![(3, 3, 4)], vec![]], cur: 0, space: vec![], bs, win: 1 << 20 };
            let mut out = Vec::new();
            let mut fc = FrameCompressor::new_with_matcher(mm, CompressionLevel::Fastest);
            fc.set_source(&data[..]);
            fc.set_drain(&mut out);
            fc.compress();
            drop(fc);
            let h = |o: usize| (out[o] as u32) | (out[o+1] as u32) << 8 | (out[o+2] as u32) << 16;
            let ha = h(6); let ta = ((ha >> 1) & 3) as u8; let sa = (ha >> 3) as usize;
            let la = if ta == 2 { out[9] & 3 } else { 8 };
            let ob = 9 + if ta == 1 { 1 } else { sa };
            let hb = h(ob); let tb = ((hb >> 1) & 3) as u8;
            let lb = if tb == 2 { out[ob + 3] & 3 } else { 8 };
            let cur = (ta, la, tb * 10 + lb);
            if ta == 0 && lb == 3 { println!("F5 HIT e={e} total={} decode={:?}", data.len(), decode(&out).map(|v| v == data)); found += 1; if found > 2 { break; } }
            if cur != last { println!("F5 e={e} blockA type={ta} litsA={la} sizeA={sa}/{bs}  blockB type={tb} litsB={lb}"); last = cur; }
        }
        println!("F5 search done, found {found}");
    }
    // F1: memory amplification: RLE literals 1 MiB regenerated in one block + big matches
    {
        // frame: magic, desc 0x00 (window desc follows), wd=0 (1KiB), block: compressed last
        // literals: RLE, size_format 3 (20 bit) regenerated_size = 0xFFFFF ; 1 byte
        let mut block = vec![];
        let regen: u32 = 0xFFFFF;
        let b0 = 1u8 | (3 << 2) | (((regen & 0xF) as u8) << 4);
        block.push(b0); block.push((regen >> 4) as u8); block.push((regen >> 12) as u8);
        block.push(0xAA);
        block.push(0); // no sequences
        let mut f = vec![0x28, 0xB5, 0x2F, 0xFD, 0x00, 0x00];
        let bh = ((block.len() as u32) << 3) | (2 << 1) | 1;
        f.extend_from_slice(&bh.to_le_bytes()[..3]);
        f.extend_from_slice(&block);
        let mut d = FrameDecoder::new();
        let mut src = &f[..];
        d.reset(&mut src).unwrap();
        let r = d.decode_blocks(&mut src, BlockDecodingStrategy::UptoBlocks(1));
        println!("F1: {} byte frame, window 1KiB: decode_blocks -> {:?}, buffered {} bytes", f.len(), r.is_ok(), d.can_collect());
    }
    // decode_from_to deferred checksum claims 4 bytes consumed from an empty source
    {
        let data = b"hello world";
        let c = compress_to_vec(&data[..], CompressionLevel::Uncompressed);
        let mut d = FrameDecoder::new();
        let mut out = [0u8; 64];
        let (r1, w1) = d.decode_from_to(&c[..c.len() - 4], &mut out).unwrap();
        let r2 = d.decode_from_to(&[], &mut out[w1..]).unwrap();
        let r3 = d.decode_from_to(&c[c.len() - 4..c.len() - 2], &mut out[w1..]).unwrap();
        println!("decode_from_to: first=({r1},{w1}) empty-source -> {:?}; 2-byte source -> {:?}; finished={}", r2, r3, d.is_finished());
    }
    // window descriptor 0xFF with limit = max
    {
        let f = [0x28u8, 0xB5, 0x2F, 0xFD, 0x00, 0xFF, 1, 0, 0];
        let mut d = FrameDecoder::new();
        d.set_max_window_size(u64::MAX);
        println!("max window limit {} ; wd=0xFF -> {:?}", d.max_window_size(), d.reset(&f[..]).map_err(|e| format!("{e}")));
        let f = [0x28u8, 0xB5, 0x2F, 0xFD, 0x00, 0xFE, 1, 0, 0];
        d.set_max_window_size(1024);
        println!("wd=0xFE limit 1024 -> {:?}", d.reset(&f[..]).map_err(|e| format!("{e}")));
    }
}
